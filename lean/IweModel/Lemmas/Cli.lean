/- helper lemmas for the command-line listing model (`Model/Cli.lean`): `sorted().unique()` on strings -/
import IweModel.Model.Cli
import IweModel.Lemmas.ArenaGraph

namespace Iwe
namespace Cli
open Graph

abbrev strLt (a b : String) : Bool := decide (a < b)

theorem str_le_of_lt {a b : String} (h : a < b) : a ≤ b := String.not_lt.1 (String.lt_asymm h)

theorem str_lt_of_lt_of_le {a b c : String} (h1 : a < b) (h2 : b ≤ c) : a < c := by
  apply Decidable.byContradiction
  intro h
  exact String.not_lt.2 (String.le_trans h2 (String.not_lt.1 h)) h1

theorem insertBy_strLt_sorted (x : String) : ∀ (l : List String),
    l.Pairwise (fun a b => a ≤ b) → (insertBy strLt x l).Pairwise (fun a b => a ≤ b)
  | [], _ => by simp [insertBy]
  | y :: ys, hp => by
    rw [List.pairwise_cons] at hp
    simp only [insertBy]
    by_cases hxy : x < y
    · simp only [strLt, hxy, decide_true, if_true]
      refine List.pairwise_cons.2 ⟨?_, List.pairwise_cons.2 hp⟩
      intro z hz
      rcases List.mem_cons.1 hz with rfl | hz
      · exact str_le_of_lt hxy
      · exact String.le_trans (str_le_of_lt hxy) (hp.1 z hz)
    · simp only [strLt, hxy, decide_false, Bool.false_eq_true, if_false]
      refine List.pairwise_cons.2 ⟨?_, insertBy_strLt_sorted x ys hp.2⟩
      intro z hz
      rcases List.mem_cons.1 ((insertBy_perm strLt x ys).mem_iff.1 hz) with rfl | hz
      · exact String.not_lt.1 hxy
      · exact hp.1 z hz

theorem sortBy_strLt_sorted : ∀ (l : List String), (sortBy strLt l).Pairwise (fun a b => a ≤ b)
  | [] => by simp [sortBy]
  | x :: xs => by
    simp only [sortBy]
    exact insertBy_strLt_sorted x _ (sortBy_strLt_sorted xs)

theorem mem_dedupAdj (z : String) : ∀ l : List String, z ∈ dedupAdj l ↔ z ∈ l
  | [] => by simp [dedupAdj]
  | [x] => by simp [dedupAdj]
  | x :: y :: rest => by
    have ih := mem_dedupAdj z (y :: rest)
    simp only [dedupAdj]
    by_cases hxy : x = y
    · subst hxy
      simp only [beq_self_eq_true, if_true, ih, List.mem_cons]
      constructor
      · intro h; exact Or.inr h
      · rintro (h | h)
        · exact Or.inl h
        · exact h
    · have : (x == y) = false := by simpa using hxy
      simp only [this, Bool.false_eq_true, if_false, List.mem_cons, ih]

theorem dedupAdj_sorted : ∀ l : List String, l.Pairwise (fun a b => a ≤ b) →
    (dedupAdj l).Pairwise (fun a b => a < b)
  | [], _ => by simp [dedupAdj]
  | [x], _ => by simp [dedupAdj]
  | x :: y :: rest, hp => by
    have hp' := List.pairwise_cons.1 hp
    have ih := dedupAdj_sorted (y :: rest) hp'.2
    simp only [dedupAdj]
    by_cases hxy : x = y
    · subst hxy
      simpa using ih
    · have hb : (x == y) = false := by simpa using hxy
      simp only [hb, Bool.false_eq_true, if_false]
      refine List.pairwise_cons.2 ⟨?_, ih⟩
      intro z hz
      have hz' : z ∈ y :: rest := (mem_dedupAdj z _).1 hz
      have hxy' : x ≤ y := hp'.1 y (List.mem_cons_self ..)
      have hlt : x < y := by
        apply Decidable.byContradiction
        intro h
        exact hxy (String.le_antisymm hxy' (String.not_lt.1 h))
      rcases List.mem_cons.1 hz' with rfl | hz''
      · exact hlt
      · exact str_lt_of_lt_of_le hlt ((List.pairwise_cons.1 hp'.2).1 z hz'')

theorem mem_sortUnique (z : String) (l : List String) : z ∈ sortUnique l ↔ z ∈ l := by
  unfold sortUnique
  rw [mem_dedupAdj]
  exact (sortBy_perm _ l).mem_iff

theorem sortUnique_sorted (l : List String) : (sortUnique l).Pairwise (fun a b => a < b) :=
  dedupAdj_sorted _ (sortBy_strLt_sorted l)

end Cli
end Iwe
