/- helper lemmas for C16 -/
import IweModel.Props.C04
import IweModel.Props.C18

namespace Iwe

/-! ## insertion sort by file name yields *the* sorted list -/

namespace Graph

/-- the order `import` sorts by -/
abbrev nameLt {β} (a b : String × β) : Bool := decide (a.1 < b.1)

theorem string_lt_of_not_lt_of_ne {a b : String} (h : ¬ a < b) (hne : a ≠ b) : b < a := by
  apply Decidable.byContradiction
  intro h'
  exact hne (String.le_antisymm (String.not_lt.1 h') (String.not_lt.1 h))

theorem insertBy_nameLt_sorted {β} (x : String × β) : ∀ (l : List (String × β)),
    l.Pairwise (fun a b => a.1 < b.1) → (∀ y ∈ l, y.1 ≠ x.1) →
    (insertBy nameLt x l).Pairwise (fun a b => a.1 < b.1)
  | [], _, _ => by simp [insertBy]
  | y :: ys, hp, hne => by
    rw [List.pairwise_cons] at hp
    simp only [insertBy]
    by_cases hxy : x.1 < y.1
    · simp only [nameLt, hxy, decide_true, if_true]
      refine List.pairwise_cons.2 ⟨?_, List.pairwise_cons.2 hp⟩
      intro z hz
      rcases List.mem_cons.1 hz with rfl | hz
      · exact hxy
      · exact String.lt_trans hxy (hp.1 z hz)
    · simp only [nameLt, hxy, decide_false, Bool.false_eq_true, if_false]
      refine List.pairwise_cons.2 ⟨?_, insertBy_nameLt_sorted x ys hp.2
        (fun z hz => hne z (List.mem_cons_of_mem _ hz))⟩
      intro z hz
      rcases List.mem_cons.1 ((insertBy_perm nameLt x ys).mem_iff.1 hz) with rfl | hz
      · exact string_lt_of_not_lt_of_ne hxy (Ne.symm (hne y (List.mem_cons_self ..)))
      · exact hp.1 z hz

theorem sortBy_nameLt_sorted {β} : ∀ (l : List (String × β)), (l.map (·.1)).Nodup →
    (sortBy nameLt l).Pairwise (fun a b => a.1 < b.1)
  | [], _ => by simp [sortBy]
  | x :: xs, hnd => by
    simp only [List.map_cons, List.nodup_cons] at hnd
    simp only [sortBy]
    refine insertBy_nameLt_sorted x _ (sortBy_nameLt_sorted xs hnd.2) ?_
    intro y hy heq
    have hy' : y ∈ xs := (sortBy_perm nameLt xs).mem_iff.1 hy
    exact hnd.1 (heq ▸ List.mem_map.2 ⟨y, hy', rfl⟩)

/-- sorting by (distinct) file names does not depend on the order the files arrive in -/
theorem sortBy_nameLt_perm_invariant {β} (l l' : List (String × β)) (hperm : l.Perm l')
    (hd : (l.map (·.1)).Nodup) : sortBy nameLt l = sortBy nameLt l' := by
  have hd' : (l'.map (·.1)).Nodup := (hperm.map _).nodup_iff.1 hd
  refine List.Perm.eq_of_pairwise ?_ (sortBy_nameLt_sorted l hd) (sortBy_nameLt_sorted l' hd') ?_
  · intro a b _ _ hab hba
    exact absurd hba (String.lt_asymm hab)
  · exact ((sortBy_perm nameLt l).trans hperm).trans (sortBy_perm nameLt l').symm

end Graph

/-! ## the library after a history of insertions with distinct keys -/

theorem finalLib_eq_libAfter : ∀ (l : List (String × Document)) (lib : Library),
    C04.finalLib lib l = libAfter lib l
  | [], _ => rfl
  | (k, d) :: rest, lib => by
    rw [C04.finalLib, libAfter, finalLib_eq_libAfter rest]

theorem assocGet_perm {β} {m m' : List (String × β)} (hperm : m.Perm m')
    (hnd : (m.map (·.1)).Nodup) (k : String) : assocGet m k = assocGet m' k :=
  assocGet_congr_mem hnd ((hperm.map _).nodup_iff.1 hnd) (fun _ => hperm.mem_iff) k

/-- with distinct keys the final library is, as a finite map, independent of the insertion order -/
theorem assocGet_finalLib_perm (lib : Library) {l l' : List (String × Document)} (hperm : l.Perm l')
    (hnd : (l.map (·.1)).Nodup) (k : String) :
    assocGet (C04.finalLib lib l) k = assocGet (C04.finalLib lib l') k := by
  rw [finalLib_eq_libAfter, finalLib_eq_libAfter, assocGet_libAfter l lib k hnd,
    assocGet_libAfter l' lib k ((hperm.map _).nodup_iff.1 hnd), assocGet_perm hperm hnd k]

end Iwe
