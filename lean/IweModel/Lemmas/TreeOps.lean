/- helper lemmas for C08, C09, C10 (tree surgery): umbrella file -/
import IweModel.Lemmas.TreeBasic
import IweModel.Lemmas.TreeConv
import IweModel.Lemmas.TreeRekey
import IweModel.Lemmas.TreeExtract
