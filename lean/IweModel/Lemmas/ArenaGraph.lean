/-
Graph-level lemmas for C20: association lists, `addDocument`, `updateKey`, `importDocs`.
-/
import IweModel.Lemmas.ArenaWalk
namespace Iwe

/-! ## association lists -/

theorem assocGet_some_mem {β} {m : List (String × β)} {k : String} {v : β}
    (h : assocGet m k = some v) : (k, v) ∈ m := by
  induction m with
  | nil => simp [assocGet] at h
  | cons p m ih =>
    obtain ⟨k', v'⟩ := p
    simp only [assocGet] at h
    split at h
    · rename_i hk; simp at hk h; subst hk h; simp
    · exact List.mem_cons_of_mem _ (ih h)

theorem assocGet_none_not_mem {β} {m : List (String × β)} {k : String}
    (h : assocGet m k = none) (v : β) : (k, v) ∉ m := by
  induction m with
  | nil => simp
  | cons p m ih =>
    obtain ⟨k', v'⟩ := p
    simp only [assocGet] at h
    split at h
    · simp at h
    · rename_i hk
      simp at hk
      intro hm
      rcases List.mem_cons.1 hm with h' | h'
      · simp at h'; exact hk h'.1.symm
      · exact ih h h'

theorem assocGet_none_of_not_mem {β} {m : List (String × β)} {k : String}
    (h : ∀ v, (k, v) ∉ m) : assocGet m k = none := by
  cases hg : assocGet m k with
  | none => rfl
  | some v => exact absurd (assocGet_some_mem hg) (h v)

theorem mem_assocErase {β} {m : List (String × β)} {k k' : String} {v : β} :
    (k', v) ∈ assocErase m k ↔ (k', v) ∈ m ∧ k' ≠ k := by
  simp [assocErase]

theorem assocErase_eq_self {β} {m : List (String × β)} {k : String}
    (h : assocGet m k = none) : assocErase m k = m := by
  simp only [assocErase, List.filter_eq_self]
  intro p hp
  obtain ⟨k', v⟩ := p
  simp
  rintro rfl
  exact assocGet_none_not_mem h v hp

theorem assocErase_keys_nodup {β} {m : List (String × β)} (k : String)
    (h : (m.map (·.1)).Nodup) : ((assocErase m k).map (·.1)).Nodup :=
  List.Nodup.sublist (List.Sublist.map _ (List.filter_sublist)) h

/-- well-formedness relative to an explicit list of segments -/
def WFWith (segs : List Seg) (arena : List GNode) (keys : List (String × Nat)) : Prop :=
  Covers 0 segs arena
    ∧ (∀ k id, (k, id) ∈ keys ↔ ∃ s ∈ segs, s.key = k ∧ s.base = id)
    ∧ (segs.map (·.key)).Nodup
    ∧ (keys.map (·.1)).Nodup

namespace Graph

theorem addDocument_ok {g g' : Graph} {dir : String → String} {key : String} {d : Document}
    (h : g.addDocument dir key d = .ok g') :
    ∃ f, g'.arena = g.arena ++ Arena.layoutDoc g.arena.length key f
      ∧ g'.keys = assocSet g.keys key g.arena.length := by
  simp only [addDocument] at h
  split at h
  · simp at h
  · rename_i f _
    simp at h
    subst h
    exact ⟨f, rfl, rfl⟩

theorem updateKey_eq (g : Graph) (key : String) (d : Document) :
    g.updateKey key d
      = addDocument (match assocGet g.keys key with
          | some id => { g with arena := Arena.deleteBranch g.arena.length g.arena id }
          | none => g) keyParent key d := rfl

end Graph

/-- adding a note whose key is bound to no segment -/
theorem WFWith.addDocument {segs : List Seg} {g g' : Graph} {dir : String → String} {key : String}
    {d : Document} (h : WFWith segs g.arena (assocErase g.keys key))
    (hok : g.addDocument dir key d = .ok g') :
    ∃ f, WFWith (segs ++ [⟨key, g.arena.length, f⟩]) g'.arena g'.keys := by
  obtain ⟨f, ha, hk⟩ := Graph.addDocument_ok hok
  obtain ⟨hc, hkeys, hnd, hknd⟩ := h
  have hfresh : ∀ s ∈ segs, s.key ≠ key := by
    intro s hs heq
    have := (hkeys key s.base).2 ⟨s, hs, heq, rfl⟩
    exact (mem_assocErase.1 this).2 rfl
  refine ⟨f, ?_, ?_, ?_, ?_⟩
  · rw [ha]
    exact Covers.append hc ⟨key, g.arena.length, f⟩ (by simp)
  · intro k id
    rw [hk, assocSet, List.mem_cons, hkeys]
    constructor
    · rintro (h | ⟨s, hs, h1, h2⟩)
      · simp at h; exact ⟨⟨key, g.arena.length, f⟩, by simp, h.1.symm, h.2.symm⟩
      · exact ⟨s, by simp [hs], h1, h2⟩
    · rintro ⟨s, hs, h1, h2⟩
      rcases List.mem_append.1 hs with hs | hs
      · exact Or.inr ⟨s, hs, h1, h2⟩
      · simp at hs; subst hs; simp at h1 h2; left; simp [h1, h2]
  · rw [List.map_append, List.nodup_append]
    refine ⟨hnd, by simp, ?_⟩
    intro a ha b hb
    simp at ha hb
    obtain ⟨s, hs, rfl⟩ := ha
    subst hb
    exact hfresh s hs
  · rw [hk, assocSet, List.map_cons, List.nodup_cons]
    refine ⟨?_, hknd⟩
    simp only [List.mem_map, not_exists, not_and]
    rintro ⟨k, v⟩ hm heq
    simp at heq; subst heq
    exact (mem_assocErase.1 hm).2 rfl

/-- blanking one segment with `delete_branch` -/
theorem Covers.deleteBranch {segs : List Seg} {a : List GNode} (h : Covers 0 segs a) {s : Seg}
    (hs : s ∈ segs) :
    ∃ ss1 ss2, segs = ss1 ++ s :: ss2 ∧ Covers 0 (ss1 ++ ss2) (Arena.deleteBranch a.length a s.base) := by
  obtain ⟨ss1, ss2, rfl⟩ := List.append_of_mem hs
  obtain ⟨pre, post, rfl, hb, hc⟩ := Covers.remove h ss1 s ss2 rfl
  refine ⟨ss1, ss2, rfl, ?_⟩
  rw [Arena.deleteBranch_seg pre post s _ (by omega) (by simp; omega)]
  exact hc

/-- deleting the note bound to `key` -/
theorem WFWith.deleteBranch {segs : List Seg} {a : List GNode} {keys : List (String × Nat)} {key : String}
    {id : Nat} (h : WFWith segs a keys) (hg : assocGet keys key = some id) :
    ∃ segs', WFWith segs' (Arena.deleteBranch a.length a id) (assocErase keys key) := by
  obtain ⟨hc, hkeys, hnd, hknd⟩ := h
  obtain ⟨s, hs, rfl, rfl⟩ := (hkeys key id).1 (assocGet_some_mem hg)
  obtain ⟨ss1, ss2, rfl, hc'⟩ := Covers.deleteBranch hc hs
  refine ⟨ss1 ++ ss2, hc', ?_, ?_, assocErase_keys_nodup _ hknd⟩
  · intro k id
    rw [mem_assocErase, hkeys]
    have hnd' := hnd
    simp only [List.map_append, List.map_cons, List.nodup_append, List.nodup_cons] at hnd'
    constructor
    · rintro ⟨⟨t, ht, h1, h2⟩, hne⟩
      refine ⟨t, ?_, h1, h2⟩
      simp only [List.mem_append, List.mem_cons] at ht ⊢
      rcases ht with ht | rfl | ht
      · exact Or.inl ht
      · exact absurd h1.symm hne
      · exact Or.inr ht
    · rintro ⟨t, ht, h1, h2⟩
      refine ⟨⟨t, ?_, h1, h2⟩, ?_⟩
      · simp only [List.mem_append, List.mem_cons] at ht ⊢
        rcases ht with ht | ht
        · exact Or.inl ht
        · exact Or.inr (Or.inr ht)
      · subst h1
        rcases List.mem_append.1 ht with ht | ht
        · exact hnd'.2.2 _ (List.mem_map_of_mem ht) _ (by simp)
        · intro heq
          exact hnd'.2.1.1 (heq ▸ List.mem_map_of_mem ht)
  · have : (ss1 ++ ss2).Sublist (ss1 ++ s :: ss2) :=
      List.Sublist.append (List.Sublist.refl _) (List.sublist_cons_self _ _)
    exact List.Nodup.sublist (List.Sublist.map _ this) hnd

/-! ## `import` -/

namespace Graph

theorem insertBy_perm {α} (lt : α → α → Bool) (x : α) : ∀ l : List α, (insertBy lt x l).Perm (x :: l)
  | [] => by simp [insertBy]
  | y :: ys => by
    simp only [insertBy]
    split
    · exact List.Perm.refl _
    · exact ((insertBy_perm lt x ys).cons y).trans (List.Perm.swap x y ys)

theorem sortBy_perm {α} (lt : α → α → Bool) : ∀ l : List α, (sortBy lt l).Perm l
  | [] => by simp [sortBy]
  | x :: xs => by
    simp only [sortBy]
    exact (insertBy_perm lt x _).trans ((sortBy_perm lt xs).cons x)

/-- one step of the fold in `importDocs` -/
def importStep (acc : Except Site Graph) (p : String × Document) : Except Site Graph :=
  match acc with
  | .error e => .error e
  | .ok g => importDocs.updateKeyNoDelete g (keyFromFileName p.1) p.2

theorem importDocs_eq (ext : String) (state : List (String × Document)) :
    importDocs ext state
      = (sortBy (fun a b => a.1 < b.1) state).foldl importStep (.ok { ext := ext }) := rfl

theorem foldl_importStep_error (e : Site) : ∀ l : List (String × Document),
    l.foldl importStep (.error e) = .error e
  | [] => rfl
  | p :: l => by simp only [List.foldl_cons, importStep]; exact foldl_importStep_error e l

theorem import_fold_wf : ∀ (l : List (String × Document)) (g0 g : Graph),
    (∃ segs, WFWith segs g0.arena g0.keys) →
    (l.map fun p => keyFromFileName p.1).Nodup →
    (∀ p ∈ l, assocGet g0.keys (keyFromFileName p.1) = none) →
    l.foldl importStep (.ok g0) = .ok g →
    ∃ segs, WFWith segs g.arena g.keys
  | [], g0, g, hwf, _, _, hok => by
    simp at hok; subst hok; exact hwf
  | p :: l, g0, g, hwf, hnd, hnew, hok => by
    simp only [List.foldl_cons, importStep, importDocs.updateKeyNoDelete] at hok
    cases h1 : g0.addDocument keyParent (keyFromFileName p.1) p.2 with
    | error e => rw [h1, foldl_importStep_error] at hok; simp at hok
    | ok g1 =>
      rw [h1] at hok
      obtain ⟨segs, hw⟩ := hwf
      have hn := hnew p (by simp)
      have hw' : WFWith segs g0.arena (assocErase g0.keys (keyFromFileName p.1)) := by
        rw [assocErase_eq_self hn]; exact hw
      obtain ⟨f, hw1⟩ := hw'.addDocument h1
      obtain ⟨f', _, hk⟩ := addDocument_ok h1
      simp only [List.map_cons, List.nodup_cons] at hnd
      refine import_fold_wf l g1 g ⟨_, hw1⟩ hnd.2 ?_ hok
      intro q hq
      apply assocGet_none_of_not_mem
      intro v hv
      rw [hk, assocSet, List.mem_cons] at hv
      rcases hv with hv | hv
      · simp at hv
        exact hnd.1 (List.mem_map.2 ⟨q, hq, hv.1⟩)
      · exact assocGet_none_not_mem (hnew q (by simp [hq])) v (mem_assocErase.1 hv).1

end Graph
end Iwe
