/-
Helper definitions and lemmas for C20 (arena layout, pointer walks).
-/
import IweModel.Model.Wf

namespace Iwe

/-- the segment of one note: the `Document` node at `base` followed by the layout of its forest -/
structure Seg where
  key : String
  base : Nat
  forest : List BTree

def Seg.nodes (s : Seg) : List GNode := Arena.layoutDoc s.base s.key s.forest

/-- `Covers off segs a`: from offset `off` the arena `a` consists of tombstones and of the
segments `segs`, in this order, each segment sitting at its own `base`. -/
inductive Covers : Nat → List Seg → List GNode → Prop
  | nil (off : Nat) : Covers off [] []
  | gap {off : Nat} {segs : List Seg} {a : List GNode} :
      Covers (off + 1) segs a → Covers off segs (GNode.empty :: a)
  | seg {off : Nat} {s : Seg} {segs : List Seg} {a : List GNode} :
      s.base = off → Covers (off + s.nodes.length) segs a → Covers off (s :: segs) (s.nodes ++ a)

mutual
/-- a built tree with the ids the layout gives it (pre-order from `base`) and payloads through `norm` -/
def treeWithIds (norm : Node → Node) (base : Nat) : BTree → Tree
  | .mk n _ cs => .mk (some base) (norm n) (forestWithIds norm (base + 1) cs)
def forestWithIds (norm : Node → Node) (base : Nat) : List BTree → List Tree
  | [] => []
  | t :: ts => treeWithIds norm base t :: forestWithIds norm (base + Arena.size t) ts
end

/-! ## layout: lengths -/

namespace Arena

theorem size_pos (t : BTree) : 1 ≤ size t := by
  cases t; simp [size]

theorem sizes_pos_of_ne_nil {ts : List BTree} (h : ts ≠ []) : 1 ≤ sizes ts := by
  cases ts with
  | nil => exact absurd rfl h
  | cons t ts => have := size_pos t; simp [sizes]; omega

mutual
theorem length_layoutTree : ∀ (t : BTree) (b p : Nat) (h : Bool), (layoutTree b p h t).length = size t
  | .mk n lr cs, b, p, h => by simp [layoutTree, size, length_layoutForest cs]; omega
theorem length_layoutForest : ∀ (ts : List BTree) (b p : Nat), (layoutForest b p ts).length = sizes ts
  | [], b, p => by simp [layoutForest, sizes]
  | t :: ts, b, p => by simp [layoutForest, sizes, length_layoutTree t, length_layoutForest ts]
end

theorem length_layoutDoc (b : Nat) (k : String) (f : List BTree) : (layoutDoc b k f).length = 1 + sizes f := by
  simp [layoutDoc, length_layoutForest]; omega

end Arena

theorem Seg.length_nodes (s : Seg) : s.nodes.length = 1 + Arena.sizes s.forest := by
  simp [Seg.nodes, Arena.length_layoutDoc]

/-! ## layout: what sits at each index -/
namespace Arena

/-- what the closed-form layout guarantees about the node at relative index `k` of a forest laid out
at `b` with first `prev` pointer `p`, all of whose pointers stay below `lim` -/
def NodeOk (p b k lim : Nat) (g : GNode) : Prop :=
  ∃ pr nx ch pl, g = GNode.node (b + k) pr nx ch pl
    ∧ (pr = p ∨ (b ≤ pr ∧ pr < b + k))
    ∧ (∀ c, nx = some c → b + k < c ∧ c < lim)
    ∧ (∀ c, ch = some c → b + k < c ∧ c < lim)

mutual
theorem nodeOk_layoutTree : ∀ (t : BTree) (b p : Nat) (h : Bool) (lim k : Nat),
    b + size t ≤ lim → (h = true → b + size t < lim) → k < size t →
    ∃ g, (layoutTree b p h t)[k]? = some g ∧ NodeOk p b k lim g
  | .mk n lr cs, b, p, h, lim, k, h1, h2, hk => by
    cases k with
    | zero =>
      simp only [layoutTree, List.getElem?_cons_zero]
      refine ⟨_, rfl, _, _, _, _, rfl, Or.inl rfl, ?_, ?_⟩
      · intro c hc
        simp [size] at h1 h2
        cases h <;> simp at hc
        subst hc; have := h2 rfl; omega
      · intro c hc
        simp [size] at h1
        cases cs with
        | nil => simp at hc
        | cons c' cs' =>
          simp at hc; subst hc
          have := size_pos c'
          simp [sizes] at h1; omega
    | succ k =>
      simp [size] at h1 hk
      obtain ⟨g, hg, pr, nx, ch, pl, rfl, hp, hn, hc⟩ := nodeOk_layoutForest cs (b + 1) b lim k (by omega) (by omega)
      refine ⟨_, by simp [layoutTree]; exact hg, pr, nx, ch, pl, by congr 1; omega, ?_, ?_, ?_⟩
      · rcases hp with hp | hp <;> omega
      · intro c hc'; have := hn c hc'; omega
      · intro c hc'; have := hc c hc'; omega
theorem nodeOk_layoutForest : ∀ (ts : List BTree) (b p : Nat) (lim k : Nat),
    b + sizes ts ≤ lim → k < sizes ts →
    ∃ g, (layoutForest b p ts)[k]? = some g ∧ NodeOk p b k lim g
  | [], b, p, lim, k, h1, hk => by simp [sizes] at hk
  | t :: ts, b, p, lim, k, h1, hk => by
    simp [sizes] at h1 hk
    by_cases hlt : k < size t
    · obtain ⟨g, hg, hok⟩ := nodeOk_layoutTree t b p (!ts.isEmpty) lim k (by omega)
        (by
          intro hne
          have : ts ≠ [] := by intro h; simp [h] at hne
          have := sizes_pos_of_ne_nil this; omega) hlt
      refine ⟨g, ?_, hok⟩
      simp only [layoutForest]
      rw [List.getElem?_append_left (by simp [length_layoutTree]; exact hlt)]
      exact hg
    · have hpos := size_pos t
      obtain ⟨g, hg, pr, nx, ch, pl, rfl, hp, hn, hc⟩ :=
        nodeOk_layoutForest ts (b + size t) b lim (k - size t) (by omega) (by omega)
      refine ⟨GNode.node (b + size t + (k - size t)) pr nx ch pl, ?_, pr, nx, ch, pl, by congr 1; omega, ?_, ?_, ?_⟩
      · simp only [layoutForest]
        rw [List.getElem?_append_right (by simp [length_layoutTree]; omega)]
        simp only [length_layoutTree]
        exact hg
      · rcases hp with hp | hp <;> omega
      · intro c hc'; have := hn c hc'; omega
      · intro c hc'; have := hc c hc'; omega
end

end Arena

/-! ## `Covers` -/

theorem Seg.nodes_ne_nil (s : Seg) : s.nodes ≠ [] := by
  simp [Seg.nodes, Arena.layoutDoc]

theorem Seg.nodes_length_pos (s : Seg) : 1 ≤ s.nodes.length := by
  simp [Seg.length_nodes]

namespace Covers

theorem gaps {off : Nat} {segs : List Seg} {a : List GNode} : ∀ (n : Nat),
    Covers (off + n) segs a → Covers off segs (List.replicate n GNode.empty ++ a)
  | 0, h => by simpa using h
  | n + 1, h => by
    rw [List.replicate_succ, List.cons_append]
    exact Covers.gap (gaps n (by rw [Nat.add_assoc, Nat.add_comm 1 n]; exact h))

/-- a segment of a cover sits at its base -/
theorem mem_split {off : Nat} {segs : List Seg} {a : List GNode} (h : Covers off segs a) :
    ∀ s ∈ segs, ∃ pre post, a = pre ++ s.nodes ++ post ∧ s.base = off + pre.length := by
  induction h with
  | nil off => intro s hs; simp at hs
  | gap h ih =>
    intro s hs
    obtain ⟨pre, post, rfl, hb⟩ := ih s hs
    exact ⟨GNode.empty :: pre, post, by simp, by simp; omega⟩
  | @seg off s' segs a hb h ih =>
    intro s hs
    rcases List.mem_cons.1 hs with rfl | hs
    · exact ⟨[], a, by simp, by simp [hb]⟩
    · obtain ⟨pre, post, rfl, hb'⟩ := ih s hs
      exact ⟨s'.nodes ++ pre, post, by simp, by simp; omega⟩

/-- blanking one segment of a cover leaves a cover of the other segments -/
theorem remove {off : Nat} {segs : List Seg} {a : List GNode} (h : Covers off segs a) :
    ∀ (ss1 : List Seg) (s : Seg) (ss2 : List Seg), segs = ss1 ++ s :: ss2 →
      ∃ pre post, a = pre ++ s.nodes ++ post ∧ s.base = off + pre.length
        ∧ Covers off (ss1 ++ ss2) (pre ++ List.replicate s.nodes.length GNode.empty ++ post) := by
  induction h with
  | nil off => intro ss1 s ss2 hs; simp at hs
  | gap h ih =>
    intro ss1 s ss2 hs
    obtain ⟨pre, post, rfl, hb, hc⟩ := ih ss1 s ss2 hs
    exact ⟨GNode.empty :: pre, post, by simp, by simp; omega, by simpa using Covers.gap hc⟩
  | @seg off s' segs a hb h ih =>
    intro ss1 s ss2 hs
    cases ss1 with
    | nil =>
      simp at hs
      obtain ⟨rfl, rfl⟩ := hs
      exact ⟨[], a, by simp, by simp [hb], by simpa using gaps _ h⟩
    | cons x ss1 =>
      simp at hs
      obtain ⟨rfl, rfl⟩ := hs
      obtain ⟨pre, post, rfl, hb', hc⟩ := ih ss1 s ss2 rfl
      refine ⟨s'.nodes ++ pre, post, by simp, by simp; omega, ?_⟩
      simpa using Covers.seg hb hc

/-- appending a segment at the end of the arena -/
theorem append {off : Nat} {segs : List Seg} {a : List GNode} (h : Covers off segs a) (s : Seg)
    (hs : s.base = off + a.length) : Covers off (segs ++ [s]) (a ++ s.nodes) := by
  induction h with
  | nil off =>
    simpa using Covers.seg (s := s) (segs := []) (a := []) (by simpa using hs) (Covers.nil _)
  | gap h ih =>
    exact Covers.gap (ih (by simp at hs; omega))
  | @seg off s' segs a hb h ih =>
    rw [List.cons_append, List.append_assoc]
    exact Covers.seg hb (ih (by simp at hs; omega))

/-- bases are bounded, and ordered along the list -/
theorem bounds {off : Nat} {segs : List Seg} {a : List GNode} (h : Covers off segs a) :
    ∀ s ∈ segs, off ≤ s.base ∧ s.base + s.nodes.length ≤ off + a.length := by
  induction h with
  | nil off => intro s hs; simp at hs
  | gap h ih => intro s hs; have := ih s hs; simp; omega
  | @seg off s' segs a hb h ih =>
    intro s hs
    rcases List.mem_cons.1 hs with rfl | hs
    · simp; omega
    · have := ih s hs; simp; omega

theorem pairwise {off : Nat} {segs : List Seg} {a : List GNode} (h : Covers off segs a) :
    segs.Pairwise (fun s t => s.base + s.nodes.length ≤ t.base) := by
  induction h with
  | nil off => exact List.Pairwise.nil
  | gap h ih => exact ih
  | @seg off s' segs a hb h ih =>
    refine List.Pairwise.cons ?_ ih
    intro t ht
    have := bounds h t ht; omega

theorem length_le {off : Nat} {segs : List Seg} {a : List GNode} (h : Covers off segs a)
    {s : Seg} (hs : s ∈ segs) : s.nodes.length ≤ a.length := by
  have := bounds h s hs; omega

/-- every live node lies in a segment -/
theorem live_in_seg {off : Nat} {segs : List Seg} {a : List GNode} (h : Covers off segs a) :
    ∀ i, i < a.length → (Arena.get a i).isEmpty = false →
      ∃ s ∈ segs, s.base ≤ off + i ∧ off + i < s.base + s.nodes.length := by
  induction h with
  | nil off => intro i hi; simp at hi
  | gap h ih =>
    intro i hi hne
    cases i with
    | zero => simp [Arena.get, GNode.isEmpty] at hne
    | succ i =>
      obtain ⟨s, hs, h1, h2⟩ := ih i (by simpa using hi) (by simpa [Arena.get] using hne)
      exact ⟨s, hs, by omega, by omega⟩
  | @seg off s' segs a hb h ih =>
    intro i hi hne
    by_cases hlt : i < s'.nodes.length
    · exact ⟨s', by simp, by omega, by omega⟩
    · obtain ⟨s, hs, h1, h2⟩ := ih (i - s'.nodes.length) (by simp at hi; omega)
        (by
          simp only [Arena.get] at hne ⊢
          rw [List.getD_eq_getElem?_getD, List.getElem?_append_right (by omega)] at hne
          rw [List.getD_eq_getElem?_getD]
          exact hne)
      exact ⟨s, by simp [hs], by omega, by omega⟩

end Covers

end Iwe
