/-
Helper lemmas for C04: the invariant `Inv` as a record, association lists, the reference index on
the closed-form layout, and preservation of `Inv` by `addDocument` / `updateKey` / `importDocs`.
-/
import IweModel.Lemmas.Refine

namespace Iwe

/-! ## association lists -/

theorem assocGet_cons {β} (k' : String) (v : β) (m : List (String × β)) (k : String) :
    assocGet ((k', v) :: m) k = if k' = k then some v else assocGet m k := by
  simp [assocGet]

theorem assocGet_assocErase_self {β} (m : List (String × β)) (k : String) :
    assocGet (assocErase m k) k = none := by
  apply assocGet_none_of_not_mem
  intro v hv
  exact (mem_assocErase.1 hv).2 rfl

theorem assocGet_assocErase_ne {β} (m : List (String × β)) {k k' : String} (h : k' ≠ k) :
    assocGet (assocErase m k) k' = assocGet m k' := by
  induction m with
  | nil => simp [assocErase, assocGet]
  | cons p m ih =>
    obtain ⟨a, v⟩ := p
    simp only [assocErase, List.filter_cons] at ih ⊢
    by_cases ha : a = k
    · subst ha
      simp only [beq_self_eq_true, Bool.not_true, Bool.false_eq_true, if_false, assocGet_cons]
      rw [if_neg (Ne.symm h)]
      exact ih
    · have : (a == k) = false := by simpa using ha
      simp only [this, Bool.not_false, if_true, assocGet_cons]
      split
      · rfl
      · exact ih

theorem assocGet_assocSet_self {β} (m : List (String × β)) (k : String) (v : β) :
    assocGet (assocSet m k v) k = some v := by
  simp [assocSet, assocGet]

theorem assocGet_assocSet_ne {β} (m : List (String × β)) {k k' : String} (v : β) (h : k' ≠ k) :
    assocGet (assocSet m k v) k' = assocGet m k' := by
  rw [assocSet, assocGet_cons, if_neg (Ne.symm h), assocGet_assocErase_ne m h]

theorem assocSet_keys_nodup {β} {m : List (String × β)} (k : String) (v : β)
    (h : (m.map (·.1)).Nodup) : ((assocSet m k v).map (·.1)).Nodup := by
  rw [assocSet, List.map_cons, List.nodup_cons]
  refine ⟨?_, assocErase_keys_nodup k h⟩
  simp only [List.mem_map, not_exists, not_and]
  rintro ⟨k', v'⟩ hm heq
  simp at heq; subst heq
  exact (mem_assocErase.1 hm).2 rfl

theorem assocGet_of_mem_nodup {β} {m : List (String × β)} {k : String} {v : β}
    (hnd : (m.map (·.1)).Nodup) (h : (k, v) ∈ m) : assocGet m k = some v := by
  induction m with
  | nil => simp at h
  | cons p m ih =>
    obtain ⟨a, w⟩ := p
    simp only [List.map_cons, List.nodup_cons] at hnd
    rw [assocGet_cons]
    rcases List.mem_cons.1 h with h | h
    · simp at h; simp [h.1, h.2]
    · have : a ≠ k := by
        rintro rfl
        exact hnd.1 (List.mem_map.2 ⟨(a, v), h, rfl⟩)
      rw [if_neg this]
      exact ih hnd.2 h

theorem assocGet_some_iff_mem {β} {m : List (String × β)} {k : String} {v : β}
    (hnd : (m.map (·.1)).Nodup) : assocGet m k = some v ↔ (k, v) ∈ m :=
  ⟨assocGet_some_mem, assocGet_of_mem_nodup hnd⟩

/-- two association lists with distinct keys and the same bindings are the same finite map -/
theorem assocGet_congr_mem {β} {m m' : List (String × β)} (hnd : (m.map (·.1)).Nodup)
    (hnd' : (m'.map (·.1)).Nodup) (h : ∀ x, x ∈ m ↔ x ∈ m') (k : String) :
    assocGet m k = assocGet m' k := by
  cases hg : assocGet m k with
  | some v =>
    exact ((assocGet_some_iff_mem hnd').2 ((h _).1 ((assocGet_some_iff_mem hnd).1 hg))).symm
  | none =>
    cases hg' : assocGet m' k with
    | none => rfl
    | some v =>
      have := (assocGet_some_iff_mem hnd).2 ((h _).2 ((assocGet_some_iff_mem hnd').1 hg'))
      rw [hg] at this; exact absurd this (by simp)

/-! ## the reference index on the closed-form layout -/

namespace Graph

/-- shift the ids of index entries -/
def shiftIds (c : Nat) (l : List (String × Nat)) : List (String × Nat) := l.map fun e => (e.1, e.2 + c)

@[simp] theorem shiftIds_nil (c : Nat) : shiftIds c [] = [] := rfl
@[simp] theorem shiftIds_append (c : Nat) (l l' : List (String × Nat)) :
    shiftIds c (l ++ l') = shiftIds c l ++ shiftIds c l' := by simp [shiftIds]

mutual
theorem indexTree_shift : ∀ (t : BTree) (b c : Nat),
    indexTree (b + c) t = (shiftIds c (indexTree b t).1, shiftIds c (indexTree b t).2)
  | .mk n lr cs, b, c => by
    simp only [indexTree]
    rw [show b + c + 1 = (b + 1) + c by omega, indexForest_shift cs (b + 1) c]
    cases n <;> simp [shiftIds]
theorem indexForest_shift : ∀ (ts : List BTree) (b c : Nat),
    indexForest (b + c) ts = (shiftIds c (indexForest b ts).1, shiftIds c (indexForest b ts).2)
  | [], b, c => by simp [indexForest]
  | t :: ts, b, c => by
    simp only [indexForest]
    rw [show b + c + Arena.size t = (b + Arena.size t) + c by omega, indexForest_shift ts _ c,
      indexTree_shift t b c]
    simp
end

mutual
theorem indexTree_range : ∀ (t : BTree) (b : Nat) (K : String) (id : Nat),
    ((K, id) ∈ (indexTree b t).1 ∨ (K, id) ∈ (indexTree b t).2) → b ≤ id ∧ id < b + Arena.size t
  | .mk n lr cs, b, K, id, h => by
    simp only [indexTree, List.mem_append] at h
    simp only [Arena.size]
    have hsub : ((K, id) ∈ (indexForest (b + 1) cs).1 ∨ (K, id) ∈ (indexForest (b + 1) cs).2) →
        b ≤ id ∧ id < b + (1 + Arena.sizes cs) := by
      intro h'
      have := indexForest_range cs (b + 1) K id h'
      omega
    rcases h with (h | h) | (h | h)
    · cases n <;> simp at h
      omega
    · exact hsub (Or.inl h)
    · cases n <;> simp at h <;> omega
    · exact hsub (Or.inr h)
theorem indexForest_range : ∀ (ts : List BTree) (b : Nat) (K : String) (id : Nat),
    ((K, id) ∈ (indexForest b ts).1 ∨ (K, id) ∈ (indexForest b ts).2) → b ≤ id ∧ id < b + Arena.sizes ts
  | [], b, K, id, h => by simp [indexForest] at h
  | t :: ts, b, K, id, h => by
    simp only [indexForest, List.mem_append] at h
    simp only [Arena.sizes]
    have h1 := indexTree_range t b K id
    have h2 := indexForest_range ts (b + Arena.size t) K id
    rcases h with (h | h) | (h | h)
    · have := h1 (Or.inl h); omega
    · have := h2 (Or.inl h); omega
    · have := h1 (Or.inr h); omega
    · have := h2 (Or.inr h); omega
end

end Graph

/-! ## the invariant as a record -/

/-- the clauses of `Inv` for an explicit list of segments -/
structure InvWith (segs : List Seg) (g : Graph) (lib : Library) : Prop where
  covers : Covers 0 segs g.arena
  keys : ∀ k id, (k, id) ∈ g.keys ↔ ∃ s ∈ segs, s.key = k ∧ s.base = id
  segsNodup : (segs.map (·.key)).Nodup
  keysNodup : (g.keys.map (·.1)).Nodup
  libNodup : (lib.map (·.1)).Nodup
  notes : ∀ k, (∃ s ∈ segs, s.key = k) ↔ (assocGet lib k).isSome
  forests : ∀ s ∈ segs, Spec.forestOf lib s.key = some s.forest
  titles : ∀ k, assocGet g.titles k = Spec.titleOf lib k
  metadata : ∀ k, assocGet g.metadata k = Spec.metaOf lib k
  nodesMap : ∀ s ∈ segs, assocGet g.nodesMap s.key = some (Arena.rangesForest (s.base + 1) s.forest)
  blockLive : ∀ K id, (Arena.get g.arena id).isEmpty = false →
    ((K, id) ∈ g.blockRefs ↔ ∃ s ∈ segs, (K, id) ∈ (Graph.indexForest (s.base + 1) s.forest).1)
  inlineLive : ∀ K id, (Arena.get g.arena id).isEmpty = false →
    ((K, id) ∈ g.inlineRefs ↔ ∃ s ∈ segs, (K, id) ∈ (Graph.indexForest (s.base + 1) s.forest).2)
  blockBound : ∀ K id, (K, id) ∈ g.blockRefs → id < g.arena.length
  inlineBound : ∀ K id, (K, id) ∈ g.inlineRefs → id < g.arena.length

theorem inv_iff {g : Graph} {lib : Library} : Inv g lib ↔ ∃ segs, InvWith segs g lib := by
  constructor
  · rintro ⟨segs, h1, h2, h3, h4, h5, h6, h7, h8, h9, h10, h11, h12, h13, h14⟩
    exact ⟨segs, ⟨h1, h2, h3, h4, h5, h6, h7, h8, h9, h10, h11, h12, h13, h14⟩⟩
  · rintro ⟨segs, h⟩
    exact ⟨segs, h.covers, h.keys, h.segsNodup, h.keysNodup, h.libNodup, h.notes, h.forests, h.titles,
      h.metadata, h.nodesMap, h.blockLive, h.inlineLive, h.blockBound, h.inlineBound⟩

namespace Spec

theorem forestOf_congr {lib lib' : Library} (h : ∀ k, assocGet lib k = assocGet lib' k) (k : String) :
    forestOf lib k = forestOf lib' k := by
  simp only [forestOf, h]

theorem titleOf_congr {lib lib' : Library} (h : ∀ k, assocGet lib k = assocGet lib' k) (k : String) :
    titleOf lib k = titleOf lib' k := by
  simp only [titleOf, forestOf_congr h]

theorem metaOf_congr {lib lib' : Library} (h : ∀ k, assocGet lib k = assocGet lib' k) (k : String) :
    metaOf lib k = metaOf lib' k := by
  simp only [metaOf, h]

end Spec

theorem InvWith.congr {segs : List Seg} {g : Graph} {lib lib' : Library} (h : InvWith segs g lib)
    (hnd : (lib'.map (·.1)).Nodup) (heq : ∀ k, assocGet lib k = assocGet lib' k) : InvWith segs g lib' where
  covers := h.covers
  keys := h.keys
  segsNodup := h.segsNodup
  keysNodup := h.keysNodup
  libNodup := hnd
  notes := by intro k; rw [← heq]; exact h.notes k
  forests := by intro s hs; rw [← Spec.forestOf_congr heq]; exact h.forests s hs
  titles := by intro k; rw [← Spec.titleOf_congr heq]; exact h.titles k
  metadata := by intro k; rw [← Spec.metaOf_congr heq]; exact h.metadata k
  nodesMap := h.nodesMap
  blockLive := h.blockLive
  inlineLive := h.inlineLive
  blockBound := h.blockBound
  inlineBound := h.inlineBound

/-! ## segments and liveness -/

theorem Covers.seg_live {segs : List Seg} {a : List GNode} (h : Covers 0 segs a) {s : Seg} (hs : s ∈ segs)
    {i : Nat} (h1 : s.base ≤ i) (h2 : i < s.base + s.nodes.length) : (Arena.get a i).isEmpty = false := by
  obtain ⟨pre, post, rfl, hb⟩ := h.mem_split s hs
  exact (Arena.segClosed_embed pre post s (by omega)).not_empty h1 h2

theorem seg_eq_of_key {segs : List Seg} (hnd : (segs.map (·.key)).Nodup) {s t : Seg} (hs : s ∈ segs)
    (ht : t ∈ segs) (h : s.key = t.key) : s = t := by
  induction segs with
  | nil => simp at hs
  | cons x xs ih =>
    simp only [List.map_cons, List.nodup_cons] at hnd
    rcases List.mem_cons.1 hs with rfl | hs' <;> rcases List.mem_cons.1 ht with rfl | ht'
    · rfl
    · exact absurd (h ▸ List.mem_map_of_mem (f := (·.key)) ht') hnd.1
    · exact absurd (h ▸ List.mem_map_of_mem (f := (·.key)) hs') hnd.1
    · exact ih hnd.2 hs' ht'

/-- a position lies in at most one segment -/
theorem Covers.seg_unique {segs : List Seg} {a : List GNode} (h : Covers 0 segs a)
    (hnd : (segs.map (·.key)).Nodup) {s t : Seg} (hs : s ∈ segs) (ht : t ∈ segs) {i : Nat}
    (hs1 : s.base ≤ i) (hs2 : i < s.base + s.nodes.length)
    (ht1 : t.base ≤ i) (ht2 : i < t.base + t.nodes.length) : s = t := by
  by_cases hk : s.key = t.key
  · exact seg_eq_of_key hnd hs ht hk
  · have := h.disjoint s hs t ht hk
    omega

theorem Arena.lt_length_of_live {a : List GNode} {i : Nat} (h : (Arena.get a i).isEmpty = false) :
    i < a.length := by
  by_cases hi : i < a.length
  · exact hi
  · simp [Arena.get, List.getD_eq_getElem?_getD, List.getElem?_eq_none (Nat.le_of_not_lt hi), GNode.isEmpty] at h

theorem Arena.length_delOpt_of {fuel : Nat}
    (ih : ∀ (a : List GNode) (id : Nat), (Arena.deleteBranch fuel a id).length = a.length)
    (a : List GNode) (o : Option Nat) : (Arena.delOpt fuel a o).length = a.length := by
  cases o with
  | none => rfl
  | some c => exact ih a c

theorem Arena.length_deleteBranch : ∀ (fuel : Nat) (a : List GNode) (id : Nat),
    (Arena.deleteBranch fuel a id).length = a.length := by
  intro fuel
  induction fuel with
  | zero => intro a id; rfl
  | succ fuel ih =>
    intro a id
    rw [Arena.deleteBranch_succ, List.length_set, Arena.length_delOpt_of ih, Arena.length_delOpt_of ih]

/-! ## one `addDocument` step -/

namespace Graph

theorem addDocument_ok' {g g' : Graph} {dir : String → String} {key : String} {d : Document}
    (h : g.addDocument dir key d = .ok g') :
    ∃ f, Sections.forest (dir key) d.blocks = .ok f ∧
      g' = { g with
        arena := g.arena ++ Arena.layoutDoc g.arena.length key f
        keys := assocSet g.keys key g.arena.length
        metadata := match d.metadata with
          | some m => assocSet g.metadata key m
          | none => assocErase g.metadata key
        nodesMap := assocSet g.nodesMap key (Arena.rangesForest (g.arena.length + 1) f)
        globalMap := g.globalMap ++ Arena.rangesForest (g.arena.length + 1) f
        blockRefs := g.blockRefs ++ (indexForest (g.arena.length + 1) f).1
        inlineRefs := g.inlineRefs ++ (indexForest (g.arena.length + 1) f).2
        titles := match titleOf f with
          | some t => assocSet g.titles key t
          | none => assocErase g.titles key } := by
  simp only [addDocument] at h
  split at h
  · simp at h
  · rename_i f hf
    simp only [Except.ok.injEq] at h
    exact ⟨f, hf, h.symm⟩

end Graph

/-- the live part of one component of the index after blanking the segment of `key` (if any) and
appending a fresh segment for `key` -/
theorem live_index_step {segs segs1 : List Seg} {a a1 : List GNode} {key : String} {f : List BTree}
    {refs : List (String × Nat)} (sel : Nat → List BTree → List (String × Nat))
    (hrange : ∀ b ts K id, (K, id) ∈ sel b ts → b ≤ id ∧ id < b + Arena.sizes ts)
    (hc : Covers 0 segs a) (hnd : (segs.map (·.key)).Nodup)
    (hc1 : Covers 0 segs1 a1) (hlen : a1.length = a.length)
    (hmem : ∀ s, s ∈ segs1 ↔ s ∈ segs ∧ s.key ≠ key)
    (hlive : ∀ K id, (Arena.get a id).isEmpty = false →
      ((K, id) ∈ refs ↔ ∃ s ∈ segs, (K, id) ∈ sel (s.base + 1) s.forest))
    (hbound : ∀ K id, (K, id) ∈ refs → id < a.length) :
    ∀ K id, (Arena.get (a1 ++ Arena.layoutDoc a1.length key f) id).isEmpty = false →
      ((K, id) ∈ refs ++ sel (a1.length + 1) f ↔
        ∃ s ∈ segs1 ++ [(⟨key, a1.length, f⟩ : Seg)], (K, id) ∈ sel (s.base + 1) s.forest) := by
  intro K id hl
  have hc' : Covers 0 (segs1 ++ [(⟨key, a1.length, f⟩ : Seg)]) (a1 ++ Arena.layoutDoc a1.length key f) :=
    Covers.append hc1 ⟨key, a1.length, f⟩ (by simp)
  obtain ⟨t, ht, ht1, ht2⟩ := hc'.live_in_seg id (Arena.lt_length_of_live hl) hl
  simp only [Nat.zero_add] at ht1 ht2
  rw [List.mem_append]
  rcases List.mem_append.1 ht with ht | ht
  · have htb := hc1.bounds t ht
    have hts := (hmem t).1 ht
    have hla := hc.seg_live hts.1 ht1 ht2
    constructor
    · rintro (hr | hn)
      · obtain ⟨s, hs, hsi⟩ := (hlive K id hla).1 hr
        have hr' := hrange _ _ _ _ hsi
        have : s = t := hc.seg_unique hnd hs hts.1 (by omega) (by rw [Seg.length_nodes]; omega) ht1 ht2
        subst this
        exact ⟨s, List.mem_append_left _ ht, hsi⟩
      · have := hrange _ _ _ _ hn
        omega
    · rintro ⟨s, hs, hsi⟩
      rcases List.mem_append.1 hs with hs | hs
      · exact Or.inl ((hlive K id hla).2 ⟨s, ((hmem s).1 hs).1, hsi⟩)
      · simp only [List.mem_singleton] at hs
        subst hs
        have := hrange _ _ _ _ hsi
        simp only at this
        omega
  · simp only [List.mem_singleton] at ht
    subst ht
    simp only at ht1 ht2
    constructor
    · rintro (hr | hn)
      · have := hbound K id hr
        omega
      · exact ⟨⟨key, a1.length, f⟩, by simp, hn⟩
    · rintro ⟨s, hs, hsi⟩
      rcases List.mem_append.1 hs with hs | hs
      · have hb := hc1.bounds s hs
        have := hrange _ _ _ _ hsi
        rw [Seg.length_nodes] at hb
        omega
      · simp only [List.mem_singleton] at hs
        subst hs
        exact Or.inr hsi

/-! ## the library after replacing one note -/

namespace Spec

theorem forestOf_set_self {lib : Library} {key : String} {d : Document} {f : List BTree}
    (hf : Sections.forest (keyParent key) d.blocks = .ok f) :
    forestOf (assocSet lib key d) key = some f := by
  simp [forestOf, assocGet_assocSet_self, hf]

theorem forestOf_set_ne {lib : Library} {key k : String} {d : Document} (h : k ≠ key) :
    forestOf (assocSet lib key d) k = forestOf lib k := by
  simp only [forestOf, assocGet_assocSet_ne lib d h]

theorem titleOf_set_self {lib : Library} {key : String} {d : Document} {f : List BTree}
    (hf : Sections.forest (keyParent key) d.blocks = .ok f) :
    titleOf (assocSet lib key d) key = Graph.titleOf f := by
  simp [titleOf, forestOf_set_self hf]

theorem titleOf_set_ne {lib : Library} {key k : String} {d : Document} (h : k ≠ key) :
    titleOf (assocSet lib key d) k = titleOf lib k := by
  simp only [titleOf, forestOf_set_ne h]

theorem metaOf_set_self {lib : Library} {key : String} {d : Document} :
    metaOf (assocSet lib key d) key = d.metadata := by
  simp [metaOf, assocGet_assocSet_self]

theorem metaOf_set_ne {lib : Library} {key k : String} {d : Document} (h : k ≠ key) :
    metaOf (assocSet lib key d) k = metaOf lib k := by
  simp only [metaOf, assocGet_assocSet_ne lib d h]

end Spec

/-- **the step lemma**: from a state satisfying the invariant, blank the segment of `key` (if there
is one; `segs1`, `a1` are what remains) and run `addDocument` for `key`: the invariant holds for the
library with `key ↦ d`. -/
theorem InvWith.addDocument {segs segs1 : List Seg} {g g' : Graph} {lib : Library} {key : String}
    {d : Document} {a1 : List GNode} (h : InvWith segs g lib)
    (hc1 : Covers 0 segs1 a1) (hlen : a1.length = g.arena.length)
    (hsub : segs1.Sublist segs) (hmem : ∀ s, s ∈ segs1 ↔ s ∈ segs ∧ s.key ≠ key)
    (hok : Graph.addDocument { g with arena := a1 } keyParent key d = .ok g') :
    ∃ f, InvWith (segs1 ++ [⟨key, a1.length, f⟩]) g' (assocSet lib key d) ∧ g'.ext = g.ext := by
  obtain ⟨f, hf, rfl⟩ := Graph.addDocument_ok' hok
  refine ⟨f, ?_, rfl⟩
  have hfresh : ∀ s ∈ segs1, s.key ≠ key := fun s hs => ((hmem s).1 hs).2
  have hin : ∀ s ∈ segs1, s ∈ segs := fun s hs => ((hmem s).1 hs).1
  constructor
  · exact Covers.append hc1 ⟨key, a1.length, f⟩ (by simp)
  · intro k id
    show (k, id) ∈ assocSet g.keys key a1.length ↔ _
    rw [assocSet, List.mem_cons, mem_assocErase, h.keys]
    constructor
    · rintro (h1 | ⟨⟨s, hs, h1, h2⟩, hne⟩)
      · simp only [Prod.mk.injEq] at h1
        exact ⟨⟨key, a1.length, f⟩, by simp, h1.1.symm, h1.2.symm⟩
      · exact ⟨s, List.mem_append_left _ ((hmem s).2 ⟨hs, h1 ▸ hne⟩), h1, h2⟩
    · rintro ⟨s, hs, h1, h2⟩
      rcases List.mem_append.1 hs with hs | hs
      · exact Or.inr ⟨⟨s, hin s hs, h1, h2⟩, h1 ▸ hfresh s hs⟩
      · simp only [List.mem_singleton] at hs
        subst hs
        simp only at h1 h2
        left; rw [h1, h2]
  · rw [List.map_append, List.nodup_append]
    refine ⟨List.Nodup.sublist (List.Sublist.map _ hsub) h.segsNodup, by simp, ?_⟩
    intro x hx y hy
    simp only [List.mem_map] at hx
    obtain ⟨s, hs, rfl⟩ := hx
    simp only [List.map_cons, List.map_nil, List.mem_singleton] at hy
    subst hy
    exact hfresh s hs
  · exact assocSet_keys_nodup _ _ h.keysNodup
  · exact assocSet_keys_nodup _ _ h.libNodup
  · intro k
    by_cases hk : k = key
    · subst hk
      simp [assocGet_assocSet_self]
    · rw [assocGet_assocSet_ne lib d hk, ← h.notes k]
      constructor
      · rintro ⟨s, hs, h1⟩
        rcases List.mem_append.1 hs with hs | hs
        · exact ⟨s, hin s hs, h1⟩
        · simp only [List.mem_singleton] at hs
          subst hs
          exact absurd h1.symm hk
      · rintro ⟨s, hs, h1⟩
        exact ⟨s, List.mem_append_left _ ((hmem s).2 ⟨hs, h1 ▸ hk⟩), h1⟩
  · intro s hs
    rcases List.mem_append.1 hs with hs | hs
    · rw [Spec.forestOf_set_ne (hfresh s hs)]
      exact h.forests s (hin s hs)
    · simp only [List.mem_singleton] at hs
      subst hs
      exact Spec.forestOf_set_self hf
  · intro k
    show assocGet (match Graph.titleOf f with
      | some t => assocSet g.titles key t
      | none => assocErase g.titles key) k = _
    by_cases hk : k = key
    · subst hk
      rw [Spec.titleOf_set_self hf]
      cases Graph.titleOf f with
      | none => exact assocGet_assocErase_self _ _
      | some t => exact assocGet_assocSet_self _ _ _
    · rw [Spec.titleOf_set_ne hk, ← h.titles k]
      cases Graph.titleOf f with
      | none => exact assocGet_assocErase_ne _ hk
      | some t => exact assocGet_assocSet_ne _ _ hk
  · intro k
    show assocGet (match d.metadata with
      | some m => assocSet g.metadata key m
      | none => assocErase g.metadata key) k = _
    by_cases hk : k = key
    · subst hk
      rw [Spec.metaOf_set_self]
      cases d.metadata with
      | none => exact assocGet_assocErase_self _ _
      | some t => exact assocGet_assocSet_self _ _ _
    · rw [Spec.metaOf_set_ne hk, ← h.metadata k]
      cases d.metadata with
      | none => exact assocGet_assocErase_ne _ hk
      | some t => exact assocGet_assocSet_ne _ _ hk
  · intro s hs
    show assocGet (assocSet g.nodesMap key (Arena.rangesForest (a1.length + 1) f)) s.key = _
    rcases List.mem_append.1 hs with hs | hs
    · rw [assocGet_assocSet_ne _ _ (hfresh s hs)]
      exact h.nodesMap s (hin s hs)
    · simp only [List.mem_singleton] at hs
      subst hs
      exact assocGet_assocSet_self _ _ _
  · exact live_index_step (fun b ts => (Graph.indexForest b ts).1)
      (fun b ts K id hm => Graph.indexForest_range ts b K id (Or.inl hm))
      h.covers h.segsNodup hc1 hlen hmem h.blockLive h.blockBound
  · exact live_index_step (fun b ts => (Graph.indexForest b ts).2)
      (fun b ts K id hm => Graph.indexForest_range ts b K id (Or.inr hm))
      h.covers h.segsNodup hc1 hlen hmem h.inlineLive h.inlineBound
  · intro K id hm
    have hm : (K, id) ∈ g.blockRefs ++ (Graph.indexForest (a1.length + 1) f).1 := hm
    show id < (a1 ++ Arena.layoutDoc a1.length key f).length
    rw [List.length_append, Arena.length_layoutDoc]
    rcases List.mem_append.1 hm with hm | hm
    · have := h.blockBound K id hm; omega
    · have := Graph.indexForest_range f _ K id (Or.inl hm); omega
  · intro K id hm
    have hm : (K, id) ∈ g.inlineRefs ++ (Graph.indexForest (a1.length + 1) f).2 := hm
    show id < (a1 ++ Arena.layoutDoc a1.length key f).length
    rw [List.length_append, Arena.length_layoutDoc]
    rcases List.mem_append.1 hm with hm | hm
    · have := h.inlineBound K id hm; omega
    · have := Graph.indexForest_range f _ K id (Or.inr hm); omega

/-! ## `updateKey`, histories, `importDocs` -/

theorem Inv.updateKey {g g' : Graph} {lib : Library} {key : String} {d : Document}
    (h : Inv g lib) (hok : g.updateKey key d = .ok g') :
    Inv g' (assocSet lib key d) ∧ g'.ext = g.ext := by
  obtain ⟨segs, hi⟩ := inv_iff.1 h
  rw [Graph.updateKey_eq] at hok
  cases hg : assocGet g.keys key with
  | none =>
    rw [hg] at hok
    have hfresh : ∀ s ∈ segs, s.key ≠ key := by
      intro s hs heq
      exact assocGet_none_not_mem hg s.base ((hi.keys key s.base).2 ⟨s, hs, heq, rfl⟩)
    obtain ⟨f, hi', hext⟩ := hi.addDocument (a1 := g.arena) hi.covers rfl (List.Sublist.refl _)
      (fun s => ⟨fun hs => ⟨hs, hfresh s hs⟩, fun hs => hs.1⟩) hok
    exact ⟨inv_iff.2 ⟨_, hi'⟩, hext⟩
  | some id =>
    rw [hg] at hok
    obtain ⟨s0, hs0, hk0, rfl⟩ := (hi.keys key id).1 (assocGet_some_mem hg)
    obtain ⟨ss1, ss2, rfl, hc⟩ := Covers.deleteBranch hi.covers hs0
    have hnd := hi.segsNodup
    simp only [List.map_append, List.map_cons, List.nodup_append, List.nodup_cons, List.mem_map,
      List.mem_cons] at hnd
    obtain ⟨f, hi', hext⟩ := hi.addDocument (segs1 := ss1 ++ ss2) hc (Arena.length_deleteBranch _ _ _)
      (List.Sublist.append (List.Sublist.refl _) (List.sublist_cons_self _ _))
      (by
        intro s
        simp only [List.mem_append, List.mem_cons]
        constructor
        · rintro (hs | hs)
          · refine ⟨Or.inl hs, ?_⟩
            intro heq
            exact hnd.2.2 _ ⟨s, hs, rfl⟩ _ (Or.inl rfl) (by rw [heq, hk0])
          · refine ⟨Or.inr (Or.inr hs), ?_⟩
            intro heq
            exact hnd.2.1.1 ⟨s, hs, by rw [heq, hk0]⟩
        · rintro ⟨hs | rfl | hs, hne⟩
          · exact Or.inl hs
          · exact absurd hk0 hne
          · exact Or.inr hs) hok
    exact ⟨inv_iff.2 ⟨_, hi'⟩, hext⟩

/-- the library after a history (`C04.finalLib`) -/
def libAfter (lib : Library) : List (String × Document) → Library
  | [] => lib
  | (k, d) :: rest => libAfter (assocSet lib k d) rest

theorem assocGet_libAfter : ∀ (l : List (String × Document)) (lib : Library) (k : String),
    (l.map (·.1)).Nodup →
    assocGet (libAfter lib l) k = (match assocGet l k with | some d => some d | none => assocGet lib k)
  | [], lib, k, _ => by simp [libAfter, assocGet]
  | (k0, d0) :: rest, lib, k, hnd => by
    simp only [List.map_cons, List.nodup_cons] at hnd
    rw [libAfter, assocGet_libAfter rest _ k hnd.2, assocGet_cons]
    by_cases hk : k0 = k
    · subst hk
      have : assocGet rest k0 = none := by
        apply assocGet_none_of_not_mem
        intro v hv
        exact hnd.1 (List.mem_map.2 ⟨(k0, v), hv, rfl⟩)
      simp [this, assocGet_assocSet_self]
    · rw [if_neg hk, assocGet_assocSet_ne lib d0 (Ne.symm hk)]

theorem Inv.empty (ext : String) : Inv { ext := ext } [] := by
  refine inv_iff.2 ⟨[], ?_⟩
  constructor <;> simp [Spec.titleOf, Spec.forestOf, Spec.metaOf, assocGet]
  exact Covers.nil 0

namespace Graph

theorem import_fold_inv : ∀ (l : List (String × Document)) (g0 g : Graph) (lib0 : Library),
    Inv g0 lib0 →
    (l.map fun p => keyFromFileName p.1).Nodup →
    (∀ p ∈ l, assocGet lib0 (keyFromFileName p.1) = none) →
    l.foldl importStep (.ok g0) = .ok g →
    Inv g (libAfter lib0 (l.map fun p => (keyFromFileName p.1, p.2))) ∧ g.ext = g0.ext
  | [], g0, g, lib0, hinv, _, _, hok => by
    simp at hok; subst hok; exact ⟨hinv, rfl⟩
  | p :: l, g0, g, lib0, hinv, hnd, hnew, hok => by
    simp only [List.foldl_cons, importStep, importDocs.updateKeyNoDelete] at hok
    cases h1 : g0.addDocument keyParent (keyFromFileName p.1) p.2 with
    | error e => rw [h1, foldl_importStep_error] at hok; simp at hok
    | ok g1 =>
      rw [h1] at hok
      have hn := hnew p (by simp)
      have hkn : assocGet g0.keys (keyFromFileName p.1) = none := by
        obtain ⟨segs, hi⟩ := inv_iff.1 hinv
        apply assocGet_none_of_not_mem
        intro v hv
        obtain ⟨s, hs, hk, _⟩ := (hi.keys _ v).1 hv
        have := (hi.notes (keyFromFileName p.1)).1 ⟨s, hs, hk⟩
        rw [hn] at this; simp at this
      have hup : g0.updateKey (keyFromFileName p.1) p.2 = .ok g1 := by
        rw [updateKey_eq, hkn]; exact h1
      obtain ⟨hinv1, hext1⟩ := hinv.updateKey hup
      simp only [List.map_cons, List.nodup_cons] at hnd
      obtain ⟨hfin, hext⟩ := import_fold_inv l g1 g _ hinv1 hnd.2 (by
        intro q hq
        have hne : keyFromFileName q.1 ≠ keyFromFileName p.1 := by
          intro heq
          exact hnd.1 (List.mem_map.2 ⟨q, hq, heq⟩)
        rw [assocGet_assocSet_ne _ _ hne]
        exact hnew q (by simp [hq])) hok
      exact ⟨by simpa [libAfter] using hfin, by rw [hext, hext1]⟩

end Graph

theorem Inv.import {ext : String} {state : List (String × Document)} {g : Graph}
    (hd : (state.map fun p => keyFromFileName p.1).Nodup)
    (hok : Graph.importDocs ext state = .ok g) :
    Inv g (state.map fun p => (keyFromFileName p.1, p.2)) ∧ g.ext = ext := by
  rw [Graph.importDocs_eq] at hok
  have hperm := Graph.sortBy_perm (fun a b : String × Document => a.1 < b.1) state
  have hnd' : ((Graph.sortBy (fun a b : String × Document => a.1 < b.1) state).map
      fun p => keyFromFileName p.1).Nodup := (hperm.map _).nodup_iff.2 hd
  obtain ⟨hinv, hext⟩ := Graph.import_fold_inv _ { ext := ext } g [] (Inv.empty ext) hnd'
    (by intro p _; rfl) hok
  refine ⟨?_, hext⟩
  obtain ⟨segs, hi⟩ := inv_iff.1 hinv
  have hk1 : ∀ l : List (String × Document),
      (l.map fun p => (keyFromFileName p.1, p.2)).map (·.1) = l.map fun p => keyFromFileName p.1 := by
    intro l; simp
  have hndS : ((state.map fun p => (keyFromFileName p.1, p.2)).map (·.1)).Nodup := by rw [hk1]; exact hd
  have hndL : (((Graph.sortBy (fun a b : String × Document => a.1 < b.1) state).map
      fun p => (keyFromFileName p.1, p.2)).map (·.1)).Nodup := by rw [hk1]; exact hnd'
  refine inv_iff.2 ⟨segs, hi.congr hndS ?_⟩
  intro k
  rw [assocGet_libAfter _ _ _ hndL]
  have : assocGet ((Graph.sortBy (fun a b : String × Document => a.1 < b.1) state).map
      fun p => (keyFromFileName p.1, p.2)) k = assocGet (state.map fun p => (keyFromFileName p.1, p.2)) k :=
    assocGet_congr_mem hndL hndS (fun x => (hperm.map _).mem_iff) k
  rw [this]
  cases assocGet (state.map fun p => (keyFromFileName p.1, p.2)) k <;> simp [assocGet]

end Iwe
