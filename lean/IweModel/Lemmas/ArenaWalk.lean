/-
Pointer walks on the closed-form layout (C20): `deleteBranch`, `collectTree` / `collectSiblings`,
`toDocument`, `allSubNodes`.
-/
import IweModel.Lemmas.Arena

namespace Iwe
namespace Arena

/-! ## `delete_branch` -/


theorem get_embed {pre mid post : List GNode} {b k : Nat} (hb : pre.length = b) (hk : k < mid.length) :
    get (pre ++ mid ++ post) (b + k) = get mid k := by
  subst hb
  simp only [get, List.getD_eq_getElem?_getD]
  rw [List.append_assoc, List.getElem?_append_right (by omega), List.getElem?_append_left (by omega)]
  simp

theorem get_at_length (pre : List GNode) (x : GNode) (rest : List GNode) :
    get (pre ++ x :: rest) pre.length = x := by
  simp [get]

theorem set_at_length (pre : List GNode) (x y : GNode) (rest : List GNode) :
    (pre ++ x :: rest).set pre.length y = pre ++ y :: rest := by
  simp

/-- `deleteBranch` with its two optional recursive calls named -/
def delOpt (fuel : Nat) (a : List GNode) : Option Nat → List GNode
  | some c => deleteBranch fuel a c
  | none => a

theorem deleteBranch_succ (fuel : Nat) (a : List GNode) (id : Nat) :
    deleteBranch (fuel + 1) a id
      = (delOpt fuel (delOpt fuel a (get a id).child?) (get a id).next?).set id GNode.empty := by
  simp only [deleteBranch, delOpt]
  cases (get a id).child? <;> cases (get a id).next? <;> rfl

/-- pointer to the first node of a forest laid out at `b` (none for the empty forest): the layout's
`child` pointer of a node at `b - 1` with these children, and the `next` pointer of a node whose
following siblings these are -/
def firstPtr (b : Nat) : List BTree → Option Nat
  | [] => none
  | _ :: _ => some b

theorem layoutTree_mk (b p : Nat) (h : Bool) (n : Node) (lr : Option LineRange) (cs : List BTree) :
    layoutTree b p h (BTree.mk n lr cs)
      = GNode.node b p (if h then some (b + (1 + sizes cs)) else none) (firstPtr (b + 1) cs) n
          :: layoutForest (b + 1) b cs := by
  cases cs <;> simp [layoutTree, firstPtr]

theorem layoutForest_cons (b p : Nat) (n : Node) (lr : Option LineRange) (cs ts : List BTree) :
    layoutForest b p (BTree.mk n lr cs :: ts)
      = GNode.node b p (firstPtr (b + (1 + sizes cs)) ts) (firstPtr (b + 1) cs) n
          :: (layoutForest (b + 1) b cs ++ layoutForest (b + (1 + sizes cs)) b ts) := by
  cases ts <;> simp [layoutForest, layoutTree_mk, firstPtr, size]

theorem layoutDoc_eq (b : Nat) (k : String) (f : List BTree) :
    layoutDoc b k f = GNode.document b (firstPtr (b + 1) f) k :: layoutForest (b + 1) b f := by
  cases f <;> simp [layoutDoc, firstPtr]

/-- the statement of `deleteBranch_forest` at one fuel value -/
def DelSpec (fuel : Nat) : Prop :=
  ∀ (ts : List BTree) (pre post : List GNode) (b p : Nat),
    pre.length = b → ts ≠ [] → sizes ts ≤ fuel →
    deleteBranch fuel (pre ++ layoutForest b p ts ++ post) b
      = pre ++ List.replicate (sizes ts) GNode.empty ++ post

theorem delOpt_forest {fuel : Nat} (ih : DelSpec fuel) (ts : List BTree) (pre post : List GNode)
    (b p : Nat) (hb : pre.length = b) (hf : sizes ts ≤ fuel) :
    delOpt fuel (pre ++ layoutForest b p ts ++ post) (firstPtr b ts)
      = pre ++ List.replicate (sizes ts) GNode.empty ++ post := by
  cases ts with
  | nil => simp [delOpt, firstPtr, layoutForest, sizes]
  | cons t ts =>
    simp only [delOpt, firstPtr]
    exact ih (t :: ts) pre post b p hb (by simp) hf

/-- `delete_branch` on the first node of a forest embedded anywhere in an arena blanks exactly the forest -/
theorem deleteBranch_forest : ∀ (fuel : Nat), DelSpec fuel := by
  intro fuel
  induction fuel with
  | zero =>
    intro ts pre post b p hb hne hf
    have := sizes_pos_of_ne_nil hne; omega
  | succ fuel ih =>
    intro ts pre post b p hb hne hf
    cases ts with
    | nil => exact absurd rfl hne
    | cons t ts' =>
      cases t with
      | mk n lr cs =>
        subst hb
        simp only [sizes, size] at hf
        rw [layoutForest_cons, deleteBranch_succ]
        simp only [List.append_assoc, List.cons_append, get_at_length, GNode.child?, GNode.next?]
        generalize hx : GNode.node pre.length p (firstPtr (pre.length + (1 + sizes cs)) ts') (firstPtr (pre.length + 1) cs) n = x
        have h1 := delOpt_forest ih cs (pre ++ [x])
          (layoutForest (pre.length + (1 + sizes cs)) pre.length ts' ++ post) (pre.length + 1) pre.length
          (by simp) (by omega)
        simp only [List.append_assoc, List.cons_append, List.nil_append] at h1
        rw [h1]
        have h2 := delOpt_forest ih ts' (pre ++ [x] ++ List.replicate (sizes cs) GNode.empty) post
          (pre.length + (1 + sizes cs)) pre.length
          (by simp; omega) (by omega)
        simp only [List.append_assoc, List.cons_append, List.nil_append] at h2
        rw [h2, set_at_length]
        simp only [sizes, size]
        rw [show 1 + sizes cs + sizes ts' = (sizes cs + sizes ts') + 1 by omega, List.replicate_succ,
          ← List.replicate_append_replicate]
        simp only [List.append_assoc, List.cons_append]


/-! ## `Tree::from_pointer` -/

/-- `collectSiblings` through an optional pointer -/
def collOpt (a : List GNode) (norm : Node → Node) (fuel : Nat) : Option Nat → List Tree
  | some c => collectSiblings a norm fuel c
  | none => []

theorem collectTree_succ (a : List GNode) (norm : Node → Node) (fuel id : Nat) :
    collectTree a norm (fuel + 1) id
      = match (get a id).payload? with
        | none => none
        | some p => some (Tree.mk (some id) (norm p) (collOpt a norm fuel (get a id).child?)) := by
  rw [collectTree]
  cases h : get a id with
  | empty => simp [GNode.payload?]
  | document i c k => cases c <;> simp [GNode.payload?, GNode.child?, collOpt]
  | node i p nx c pl => cases c <;> simp [GNode.payload?, GNode.child?, collOpt]

theorem collectSiblings_succ (a : List GNode) (norm : Node → Node) (fuel id : Nat) :
    collectSiblings a norm (fuel + 1) id
      = match collectTree a norm fuel id with
        | some t => t :: collOpt a norm fuel (get a id).next?
        | none => collOpt a norm fuel (get a id).next? := by
  rw [collectSiblings]
  cases (get a id).next? <;> cases collectTree a norm fuel id <;> simp [collOpt]

/-- reading a forest embedded anywhere in an arena back through its pointers -/
theorem collect_embed (norm : Node → Node) : ∀ (fuel : Nat),
    (∀ (n : Node) (lr : Option LineRange) (cs : List BTree) (pre post : List GNode) (b p : Nat) (nx : Option Nat),
      pre.length = b → 2 * size (BTree.mk n lr cs) ≤ fuel + 1 →
      collectTree (pre ++ (GNode.node b p nx (firstPtr (b + 1) cs) n :: layoutForest (b + 1) b cs) ++ post) norm fuel b
        = some (treeWithIds norm b (BTree.mk n lr cs)))
    ∧ (∀ (ts : List BTree) (pre post : List GNode) (b p : Nat),
      pre.length = b → 2 * sizes ts ≤ fuel →
      collOpt (pre ++ layoutForest b p ts ++ post) norm fuel (firstPtr b ts) = forestWithIds norm b ts) := by
  intro fuel
  induction fuel with
  | zero =>
    refine ⟨?_, ?_⟩
    · intro n lr cs pre post b p nx hb hf
      simp [size] at hf; omega
    · intro ts pre post b p hb hf
      cases ts with
      | nil => simp [collOpt, firstPtr, forestWithIds]
      | cons t ts => have := size_pos t; simp [sizes] at hf; omega
  | succ fuel ih =>
    obtain ⟨ihT, ihF⟩ := ih
    refine ⟨?_, ?_⟩
    · intro n lr cs pre post b p nx hb hf
      subst hb
      simp only [size] at hf
      rw [collectTree_succ]
      simp only [List.append_assoc, List.cons_append, get_at_length, GNode.payload?, GNode.child?]
      have := ihF cs (pre ++ [GNode.node pre.length p nx (firstPtr (pre.length + 1) cs) n]) post (pre.length + 1) pre.length
        (by simp) (by omega)
      simp only [List.append_assoc, List.cons_append, List.nil_append] at this
      rw [this, treeWithIds]
    · intro ts pre post b p hb hf
      cases ts with
      | nil => simp [collOpt, firstPtr, forestWithIds]
      | cons t ts' =>
        cases t with
        | mk n lr cs =>
          subst hb
          simp only [sizes, size] at hf
          simp only [collOpt, firstPtr]
          rw [collectSiblings_succ, layoutForest_cons]
          have hT := ihT n lr cs pre (layoutForest (pre.length + (1 + sizes cs)) pre.length ts' ++ post) pre.length p
            (firstPtr (pre.length + (1 + sizes cs)) ts') rfl (by simp only [size]; omega)
          simp only [List.append_assoc, List.cons_append] at hT ⊢
          rw [hT]
          simp only [get_at_length, GNode.next?]
          have hF := ihF ts' (pre ++ GNode.node pre.length p (firstPtr (pre.length + (1 + sizes cs)) ts') (firstPtr (pre.length + 1) cs) n
              :: layoutForest (pre.length + 1) pre.length cs) post (pre.length + (1 + sizes cs)) pre.length
            (by simp [length_layoutForest]; omega) (by omega)
          simp only [List.append_assoc, List.cons_append] at hF
          rw [hF, forestWithIds, size]


/-! ## segments are closed under the pointers -/

/-- pointer facts about the segment `[base, base + len)` of an arena: the `Document` node sits at
`base`, every other node is a non-document node whose `prev` points back into the segment and whose
`next` / `child` point forward inside the segment -/
structure SegClosed (a : List GNode) (base len : Nat) (key : String) : Prop where
  root : ∃ ch, get a base = GNode.document base ch key ∧ ∀ c, ch = some c → base < c ∧ c < base + len
  inner : ∀ i, base < i → i < base + len →
    ∃ pr nx ch pl, get a i = GNode.node i pr nx ch pl ∧ base ≤ pr ∧ pr < i
      ∧ (∀ c, nx = some c → i < c ∧ c < base + len) ∧ (∀ c, ch = some c → i < c ∧ c < base + len)

theorem segClosed_embed (pre post : List GNode) (s : Seg) (hb : pre.length = s.base) :
    SegClosed (pre ++ s.nodes ++ post) s.base s.nodes.length s.key := by
  constructor
  · refine ⟨firstPtr (s.base + 1) s.forest, ?_, ?_⟩
    · have := get_embed (post := post) (k := 0) hb (Seg.nodes_length_pos s)
      rw [Nat.add_zero] at this
      rw [this]; simp [Seg.nodes, layoutDoc_eq, get]
    · intro c hc
      rw [Seg.length_nodes]
      cases hf : s.forest with
      | nil => simp [hf, firstPtr] at hc
      | cons t ts =>
        simp [hf, firstPtr] at hc
        have := size_pos t
        simp [sizes]; omega
  · intro i h1 h2
    obtain ⟨k, rfl⟩ : ∃ k, i = s.base + (k + 1) := ⟨i - s.base - 1, by omega⟩
    rw [get_embed hb (by omega)]
    rw [Seg.length_nodes] at h2 ⊢
    obtain ⟨g, hg, pr, nx, ch, pl, rfl, hp, hn, hc⟩ :=
      nodeOk_layoutForest s.forest (s.base + 1) s.base (s.base + (1 + sizes s.forest)) k (by omega) (by omega)
    refine ⟨pr, nx, ch, pl, ?_, by omega, by omega, ?_, ?_⟩
    · simp only [Seg.nodes, layoutDoc_eq, get, List.getD_eq_getElem?_getD, List.getElem?_cons_succ, hg]
      simp; omega
    · intro c h; have := hn c h; omega
    · intro c h; have := hc c h; omega

theorem SegClosed.not_empty {a : List GNode} {base len : Nat} {key : String} (h : SegClosed a base len key)
    {i : Nat} (h1 : base ≤ i) (h2 : i < base + len) : (get a i).isEmpty = false := by
  by_cases hi : i = base
  · subst hi; obtain ⟨ch, hg, _⟩ := h.root; simp [hg, GNode.isEmpty]
  · obtain ⟨pr, nx, ch, pl, hg, _⟩ := h.inner i (by omega) h2; simp [hg, GNode.isEmpty]

/-- walking `prev` from any node of a segment reaches its `Document` node -/
theorem SegClosed.toDocument {a : List GNode} {base len : Nat} {key : String} (h : SegClosed a base len key) :
    ∀ (n i fuel : Nat), base ≤ i → i < base + len → i - base ≤ n → n + 1 ≤ fuel →
      toDocument a fuel i = some base := by
  intro n
  induction n with
  | zero =>
    intro i fuel h1 h2 h3 h4
    obtain rfl : i = base := by omega
    obtain ⟨fuel, rfl⟩ : ∃ f, fuel = f + 1 := ⟨fuel - 1, by omega⟩
    obtain ⟨ch, hg, _⟩ := h.root
    simp [Arena.toDocument, hg]
  | succ n ih =>
    intro i fuel h1 h2 h3 h4
    obtain ⟨fuel, rfl⟩ : ∃ f, fuel = f + 1 := ⟨fuel - 1, by omega⟩
    by_cases hi : i = base
    · subst hi
      obtain ⟨ch, hg, _⟩ := h.root
      simp [Arena.toDocument, hg]
    · obtain ⟨pr, nx, ch, pl, hg, hp1, hp2, _⟩ := h.inner i (by omega) h2
      simp only [Arena.toDocument, hg, GNode.prev?]
      exact ih pr fuel hp1 (by omega) (by omega) (by omega)

/-- walking `child` / `next` from any node of a segment stays inside the segment -/
theorem SegClosed.allSubNodes {a : List GNode} {base len : Nat} {key : String} (h : SegClosed a base len key) :
    ∀ (fuel i : Nat), base ≤ i → i < base + len →
      ∀ j ∈ allSubNodes a fuel i, base ≤ j ∧ j < base + len := by
  intro fuel
  induction fuel with
  | zero => intro i _ _ j hj; simp [Arena.allSubNodes] at hj
  | succ fuel ih =>
    intro i h1 h2 j hj
    have hch : ∀ c, (get a i).child? = some c → i < c ∧ c < base + len := by
      by_cases hi : i = base
      · subst hi; obtain ⟨ch, hg, hc⟩ := h.root; simpa [hg, GNode.child?] using hc
      · obtain ⟨pr, nx, ch, pl, hg, _, _, _, hc⟩ := h.inner i (by omega) h2
        simpa [hg, GNode.child?] using hc
    have hnx : ∀ c, (get a i).next? = some c → i < c ∧ c < base + len := by
      by_cases hi : i = base
      · subst hi; obtain ⟨ch, hg, hc⟩ := h.root; simp [hg, GNode.next?]
      · obtain ⟨pr, nx, ch, pl, hg, _, _, hn, _⟩ := h.inner i (by omega) h2
        simpa [hg, GNode.next?] using hn
    simp only [Arena.allSubNodes, List.mem_cons, List.mem_append] at hj
    rcases hj with rfl | hj | hj
    · exact ⟨h1, h2⟩
    · cases hc : (get a i).child? with
      | none => simp [hc] at hj
      | some c =>
        simp only [hc] at hj
        have := hch c hc
        exact ih c (by omega) this.2 j hj
    · cases hc : (get a i).next? with
      | none => simp [hc] at hj
      | some c =>
        simp only [hc] at hj
        have := hnx c hc
        exact ih c (by omega) this.2 j hj

/-! ## whole segments -/

theorem deleteBranch_seg (pre post : List GNode) (s : Seg) (fuel : Nat)
    (hb : s.base = pre.length) (hf : s.nodes.length ≤ fuel) :
    deleteBranch fuel (pre ++ s.nodes ++ post) s.base
      = pre ++ List.replicate s.nodes.length GNode.empty ++ post := by
  rw [Seg.length_nodes] at hf ⊢
  obtain ⟨fuel, rfl⟩ : ∃ f, fuel = f + 1 := ⟨fuel - 1, by omega⟩
  rw [hb, deleteBranch_succ]
  simp only [Seg.nodes, layoutDoc_eq, hb, List.append_assoc, List.cons_append, get_at_length,
    GNode.child?, GNode.next?]
  have h1 := delOpt_forest (deleteBranch_forest fuel) s.forest (pre ++ [GNode.document pre.length (firstPtr (pre.length + 1) s.forest) s.key])
    post (pre.length + 1) pre.length (by simp) (by omega)
  simp only [List.append_assoc, List.cons_append, List.nil_append] at h1
  rw [h1]
  simp only [delOpt]
  rw [set_at_length, Nat.add_comm 1, List.replicate_succ]
  simp

theorem collectTree_seg (pre post : List GNode) (s : Seg) (norm : Node → Node) (fuel : Nat)
    (hb : s.base = pre.length) (hf : 2 * s.nodes.length ≤ fuel) :
    collectTree (pre ++ s.nodes ++ post) norm fuel s.base
      = some (Tree.mk (some s.base) (norm (.document s.key)) (forestWithIds norm (s.base + 1) s.forest)) := by
  rw [Seg.length_nodes] at hf
  obtain ⟨fuel, rfl⟩ : ∃ f, fuel = f + 1 := ⟨fuel - 1, by omega⟩
  rw [hb, collectTree_succ]
  simp only [Seg.nodes, layoutDoc_eq, hb, List.append_assoc, List.cons_append, get_at_length,
    GNode.child?, GNode.payload?]
  have h1 := (collect_embed norm fuel).2 s.forest (pre ++ [GNode.document pre.length (firstPtr (pre.length + 1) s.forest) s.key])
    post (pre.length + 1) pre.length (by simp) (by omega)
  simp only [List.append_assoc, List.cons_append, List.nil_append] at h1
  rw [h1]

end Arena
end Iwe
