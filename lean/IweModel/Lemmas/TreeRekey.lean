/- helper lemmas for C08: `change_key` on inlines and trees -/
import IweModel.Lemmas.TreeBasic

namespace Iwe
namespace Inline

mutual
/-- the link sites of an inline in `refKeys` order, as `(reached, url)`: `reached = false` for a
link inside the alt text of an image — `ref_keys` looks into image alt text, `change_key` does not -/
def linkSites : Inline → List (Bool × String)
  | .emph xs => linkSitesL xs
  | .strong xs => linkSitesL xs
  | .strikeout xs => linkSitesL xs
  | .link url _ _ _ => [(true, url)]
  | .image _ _ xs => (linkSitesL xs).map fun p => (false, p.2)
  | _ => []
def linkSitesL : List Inline → List (Bool × String)
  | [] => []
  | x :: xs => linkSites x ++ linkSitesL xs
end

/-- the key under which a link site is indexed -/
def siteKey (p : Bool × String) : String := keyFromFileName p.2

/-- is the site rewritten by `change_key a _`: reached, a note link (`is_ref`), and its key is `a` -/
def siteHit (a : String) (p : Bool × String) : Bool := p.1 && isRefUrl p.2 && keyFromFileName p.2 == a

/-- the key under which a link site is indexed after `change_key a b` -/
def rekeySite (a b : String) (p : Bool × String) : String :=
  if siteHit a p then keyFromFileName b else siteKey p

theorem map_siteKey_unreach (l : List (Bool × String)) :
    (l.map fun p => ((false, p.2) : Bool × String)).map siteKey = l.map siteKey := by
  simp [List.map_map, Function.comp_def, siteKey]

theorem map_rekeySite_unreach (a b : String) (l : List (Bool × String)) :
    (l.map fun p => ((false, p.2) : Bool × String)).map (rekeySite a b) = l.map siteKey := by
  simp [List.map_map, Function.comp_def, siteKey, rekeySite, siteHit]

mutual
theorem refKeys_eq_sites : (x : Inline) → refKeys x = (linkSites x).map siteKey
  | .str _ => by simp [refKeys, linkSites]
  | .code _ => by simp [refKeys, linkSites]
  | .math _ => by simp [refKeys, linkSites]
  | .emph xs => by simp only [refKeys, linkSites, refKeysL_eq_sites xs]
  | .strong xs => by simp only [refKeys, linkSites, refKeysL_eq_sites xs]
  | .strikeout xs => by simp only [refKeys, linkSites, refKeysL_eq_sites xs]
  | .link url _ _ _ => by simp [refKeys, linkSites, siteKey]
  | .image _ _ xs => by simp only [refKeys, linkSites, refKeysL_eq_sites xs, map_siteKey_unreach]
theorem refKeysL_eq_sites : (xs : List Inline) → refKeysL xs = (linkSitesL xs).map siteKey
  | [] => by simp [refKeysL, linkSitesL]
  | x :: xs => by simp [refKeysL, linkSitesL, refKeys_eq_sites x, refKeysL_eq_sites xs]
end

mutual
theorem refKeys_changeKey (a b : String) : (x : Inline) →
    refKeys (changeKey a b x) = (linkSites x).map (rekeySite a b)
  | .str _ => by simp [changeKey, refKeys, linkSites]
  | .code _ => by simp [changeKey, refKeys, linkSites]
  | .math _ => by simp [changeKey, refKeys, linkSites]
  | .emph xs => by simp only [changeKey, refKeys, linkSites, refKeysL_changeKeyL a b xs]
  | .strong xs => by simp only [changeKey, refKeys, linkSites, refKeysL_changeKeyL a b xs]
  | .strikeout xs => by simp only [changeKey, refKeys, linkSites, refKeysL_changeKeyL a b xs]
  | .link url t ty xs => by
    simp only [changeKey, linkSites, List.map_cons, List.map_nil, rekeySite, siteHit, siteKey,
      Bool.true_and]
    split <;> simp [refKeys]
  | .image _ _ xs => by
    simp only [changeKey, refKeys, linkSites, map_rekeySite_unreach, refKeysL_eq_sites xs]
theorem refKeysL_changeKeyL (a b : String) : (xs : List Inline) →
    refKeysL (changeKeyL a b xs) = (linkSitesL xs).map (rekeySite a b)
  | [] => by simp [changeKeyL, refKeysL, linkSitesL]
  | x :: xs => by
    simp [changeKeyL, refKeysL, linkSitesL, refKeys_changeKey a b x, refKeysL_changeKeyL a b xs]
end

mutual
/-- an inline without a link indexed under `a` is not changed -/
theorem changeKey_frame (a b : String) : (x : Inline) → a ∉ refKeys x → changeKey a b x = x
  | .str _, _ => by simp [changeKey]
  | .code _, _ => by simp [changeKey]
  | .math _, _ => by simp [changeKey]
  | .image _ _ _, _ => by simp [changeKey]
  | .emph xs, h => by
    simp only [refKeys] at h; simp [changeKey, changeKeyL_frame a b xs h]
  | .strong xs, h => by
    simp only [refKeys] at h; simp [changeKey, changeKeyL_frame a b xs h]
  | .strikeout xs, h => by
    simp only [refKeys] at h; simp [changeKey, changeKeyL_frame a b xs h]
  | .link url t ty xs, h => by
    simp only [refKeys, List.mem_singleton] at h
    have : (keyFromFileName url == a) = false := by
      simp only [beq_eq_false_iff_ne, ne_eq]; exact fun e => h e.symm
    simp [changeKey, this]
theorem changeKeyL_frame (a b : String) : (xs : List Inline) → a ∉ refKeysL xs → changeKeyL a b xs = xs
  | [], _ => by simp [changeKeyL]
  | x :: xs, h => by
    simp only [refKeysL, List.mem_append, not_or] at h
    simp [changeKeyL, changeKey_frame a b x h.1, changeKeyL_frame a b xs h.2]
end

end Inline

namespace Content

mutual
/-- the inline link sites of a tree in `inlineKeys` order -/
def inlineSites : Tree → List (Bool × String)
  | .mk _ n cs =>
    (match n with
     | .sect xs => Inline.linkSitesL xs
     | .leaf xs => Inline.linkSitesL xs
     | _ => []) ++ inlineSitesL cs
def inlineSitesL : List Tree → List (Bool × String)
  | [] => []
  | t :: ts => inlineSites t ++ inlineSitesL ts
end

mutual
theorem inlineKeys_eq_sites : (t : Tree) → inlineKeys t = (inlineSites t).map Inline.siteKey
  | .mk id n cs => by
    cases n <;>
      simp [inlineKeys, inlineSites, inlineKeysL_eq_sites cs, Inline.refKeysL_eq_sites]
theorem inlineKeysL_eq_sites : (cs : List Tree) → inlineKeysL cs = (inlineSitesL cs).map Inline.siteKey
  | [] => by simp [inlineKeysL, inlineSitesL]
  | t :: ts => by simp [inlineKeysL, inlineSitesL, inlineKeys_eq_sites t, inlineKeysL_eq_sites ts]
end

mutual
theorem inlineKeys_changeKey (a b : String) : (t : Tree) →
    inlineKeys (Tree.changeKey a b t) = (inlineSites t).map (Inline.rekeySite a b)
  | .mk id n cs => by
    cases n <;>
      simp [Tree.changeKey, inlineKeys, inlineSites, inlineKeysL_changeKeyL a b cs,
        Inline.refKeysL_changeKeyL]
theorem inlineKeysL_changeKeyL (a b : String) : (cs : List Tree) →
    inlineKeysL (Tree.changeKeyL a b cs) = (inlineSitesL cs).map (Inline.rekeySite a b)
  | [] => by simp [Tree.changeKeyL, inlineKeysL, inlineSitesL]
  | t :: ts => by
    simp [Tree.changeKeyL, inlineKeysL, inlineSitesL, inlineKeys_changeKey a b t,
      inlineKeysL_changeKeyL a b ts]
end

mutual
theorem refKeys_changeKey (a b : String) : (t : Tree) →
    refKeys (Tree.changeKey a b t) = (refKeys t).map fun k => if k == a then b else k
  | .mk id n cs => by
    cases n <;> simp [Tree.changeKey, refKeys, refKeysL_changeKeyL a b cs]
theorem refKeysL_changeKeyL (a b : String) : (cs : List Tree) →
    refKeysL (Tree.changeKeyL a b cs) = (refKeysL cs).map fun k => if k == a then b else k
  | [] => by simp [Tree.changeKeyL, refKeysL]
  | t :: ts => by
    simp [Tree.changeKeyL, refKeysL, refKeys_changeKey a b t, refKeysL_changeKeyL a b ts]
end

end Content

namespace Tree

mutual
theorem ids_changeKey (a b : String) : (t : Tree) → ids (changeKey a b t) = ids t
  | .mk id n cs => by simp [changeKey, ids, idsL_changeKeyL a b cs]
theorem idsL_changeKeyL (a b : String) : (cs : List Tree) → idsL (changeKeyL a b cs) = idsL cs
  | [] => by simp [changeKeyL]
  | t :: ts => by simp [changeKeyL, idsL, ids_changeKey a b t, idsL_changeKeyL a b ts]
end

mutual
theorem size_changeKey (a b : String) : (t : Tree) → size (changeKey a b t) = size t
  | .mk id n cs => by simp [changeKey, size, sizeL_changeKeyL a b cs]
theorem sizeL_changeKeyL (a b : String) : (cs : List Tree) → sizeL (changeKeyL a b cs) = sizeL cs
  | [] => by simp [changeKeyL]
  | t :: ts => by simp [changeKeyL, sizeL, size_changeKey a b t, sizeL_changeKeyL a b ts]
end

mutual
theorem changeKey_frame (a b : String) : (t : Tree) → a ∉ Content.refKeys t → a ∉ Content.inlineKeys t →
    changeKey a b t = t
  | .mk id n cs, h1, h2 => by
    simp only [Content.refKeys, List.mem_append, not_or] at h1
    simp only [Content.inlineKeys, List.mem_append, not_or] at h2
    simp only [changeKey, changeKeyL_frame a b cs h1.2 h2.2]
    cases n with
    | sect xs => simp [Inline.changeKeyL_frame a b xs h2.1]
    | leaf xs => simp [Inline.changeKeyL_frame a b xs h2.1]
    | ref k text ty =>
      have : k ≠ a := by
        intro e; have := h1.1; simp [e] at this
      simp [this]
    | _ => rfl
theorem changeKeyL_frame (a b : String) : (cs : List Tree) → a ∉ Content.refKeysL cs →
    a ∉ Content.inlineKeysL cs → changeKeyL a b cs = cs
  | [], _, _ => by simp [changeKeyL]
  | t :: ts, h1, h2 => by
    simp only [Content.refKeysL, List.mem_append, not_or] at h1
    simp only [Content.inlineKeysL, List.mem_append, not_or] at h2
    simp [changeKeyL, changeKey_frame a b t h1.1 h2.1, changeKeyL_frame a b ts h1.2 h2.2]
end

end Tree
end Iwe
