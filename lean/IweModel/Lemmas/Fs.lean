/- helper lemmas for C19 -/
import IweModel.Model.Fs

namespace Iwe
namespace Fs

/-! ### algebra of `get` / `put` / `del` -/

theorem find?_filter_ne (d : Disk) (p q : Path) (h : q ≠ p) :
    (d.filter (fun e => !(e.1 == p))).find? (fun e => e.1 == q) = d.find? (fun e => e.1 == q) := by
  induction d with
  | nil => rfl
  | cons e rest ih =>
    obtain ⟨a, b⟩ := e
    by_cases he : a = p
    · subst he
      have heq : ¬ a = q := fun e' => h e'.symm
      simp [heq, ih]
    · by_cases heq : a = q
      · subst heq
        simp [he]
      · simp [he, heq, ih]

theorem find?_filter_self (d : Disk) (p : Path) :
    (d.filter (fun e => !(e.1 == p))).find? (fun e => e.1 == p) = none := by
  induction d with
  | nil => rfl
  | cons e rest ih =>
    obtain ⟨a, b⟩ := e
    by_cases he : a = p
    · subst he
      simp
    · simp [he]

theorem get_put (d : Disk) (p : Path) (c : String) (q : Path) :
    get (put d p c) q = if q = p then some c else get d q := by
  unfold get put
  by_cases h : q = p
  · subst h
    simp
  · have h' : ¬ p = q := fun e => h e.symm
    have hb : (p == q) = false := by simpa using h'
    rw [List.find?_cons]
    simp only [hb, if_neg h]
    rw [find?_filter_ne d p q h]

theorem get_del (d : Disk) (p : Path) (q : Path) :
    get (del d p) q = if q = p then none else get d q := by
  unfold get del
  by_cases h : q = p
  · subst h
    rw [find?_filter_self]
    simp
  · rw [find?_filter_ne d p q h]
    simp [h]

/-! ### frame lemma -/

/-- the paths a step can modify -/
def touched : Step → List Path
  | .openTrunc p => [p]
  | .append p _ => [p]
  | .rename s t => [s, t]
  | .unlink p => [p]

theorem get_apply_of_not_touched (d : Disk) (s : Step) (p : Path) (h : p ∉ touched s) :
    get (apply d s) p = get d p := by
  cases s with
  | openTrunc q =>
    have : p ≠ q := by simpa [touched] using h
    simp [apply, get_put, this]
  | append q c =>
    have : p ≠ q := by simpa [touched] using h
    simp [apply, get_put, this]
  | rename a b =>
    have h' : p ≠ a ∧ p ≠ b := by simpa [touched] using h
    simp only [apply]
    cases hg : get d a with
    | some c => simp [get_put, get_del, h'.1, h'.2]
    | none => rfl
  | unlink q =>
    have : p ≠ q := by simpa [touched] using h
    simp [apply, get_del, this]

theorem run_nil (d : Disk) : run d [] = d := rfl

theorem run_cons (d : Disk) (s : Step) (steps : List Step) :
    run d (s :: steps) = run (apply d s) steps := rfl

theorem run_append (d : Disk) (s₁ s₂ : List Step) : run d (s₁ ++ s₂) = run (run d s₁) s₂ := by
  simp [run, List.foldl_append]

theorem get_run_of_not_touched (steps : List Step) (d : Disk) (p : Path)
    (h : ∀ s ∈ steps, p ∉ touched s) : get (run d steps) p = get d p := by
  induction steps generalizing d with
  | nil => rfl
  | cons s rest ih =>
    rw [run_cons, ih _ (fun t ht => h t (List.mem_cons_of_mem _ ht)),
      get_apply_of_not_touched _ _ _ (h s List.mem_cons_self)]

/-! ### paths -/

theorem notePath_inj {base k k' : String} (h : notePath base k = notePath base k') : k = k' := by
  unfold notePath at h
  simpa [String.append_assoc] using h

theorem tmpPath_inj {base k k' : String} (h : tmpPath base k = tmpPath base k') : k = k' := by
  unfold tmpPath at h
  simpa [String.append_assoc] using h

/-! ### what `writeFile` / `writeStore` touch -/

theorem touched_writeFile {atomic : Bool} {base key : String} {chunks : List String} {s : Step}
    (hs : s ∈ writeFile atomic base key chunks) {q : Path} (hq : q ∈ touched s) :
    q = notePath base key ∨ q = tmpPath base key := by
  unfold writeFile at hs
  cases atomic with
  | true =>
    simp only [if_true, List.mem_append, List.mem_singleton, List.mem_map] at hs
    rcases hs with (rfl | ⟨c, _, rfl⟩) | rfl
    · simp [touched] at hq; exact Or.inr hq
    · simp [touched] at hq; exact Or.inr hq
    · simp [touched] at hq; rcases hq with h | h
      · exact Or.inr h
      · exact Or.inl h
  | false =>
    simp only [Bool.false_eq_true, if_false, List.mem_append, List.mem_singleton, List.mem_map] at hs
    rcases hs with rfl | ⟨c, _, rfl⟩
    · simp [touched] at hq; exact Or.inl hq
    · simp [touched] at hq; exact Or.inl hq

theorem touched_writeStore {atomic : Bool} {base : String} {store : List (String × List String)}
    {s : Step} (hs : s ∈ writeStore atomic base store) {q : Path} (hq : q ∈ touched s) :
    ∃ e ∈ store, q = notePath base e.1 ∨ q = tmpPath base e.1 := by
  induction store with
  | nil => simp [writeStore] at hs
  | cons e rest ih =>
    obtain ⟨key, chunks⟩ := e
    simp only [writeStore, List.mem_append] at hs
    rcases hs with hs | hs
    · exact ⟨(key, chunks), List.mem_cons_self, touched_writeFile hs hq⟩
    · obtain ⟨e, he, h⟩ := ih hs
      exact ⟨e, List.mem_cons_of_mem _ he, h⟩

/-- frame lemma for a crash point of one `writeFile` -/
theorem get_take_writeFile_frame (atomic : Bool) (base key : String) (chunks : List String)
    (d : Disk) (k : Nat) (p : Path) (hn : p ≠ notePath base key) (ht : p ≠ tmpPath base key) :
    get (run d ((writeFile atomic base key chunks).take k)) p = get d p := by
  apply get_run_of_not_touched
  intro s hs hq
  rcases touched_writeFile (List.mem_of_mem_take hs) hq with h | h
  · exact hn h
  · exact ht h

/-- frame lemma for a crash point of `writeStore` -/
theorem get_take_writeStore_frame (atomic : Bool) (base : String) (store : List (String × List String))
    (d : Disk) (k : Nat) (p : Path)
    (hp : ∀ e ∈ store, p ≠ notePath base e.1 ∧ p ≠ tmpPath base e.1) :
    get (run d ((writeStore atomic base store).take k)) p = get d p := by
  apply get_run_of_not_touched
  intro s hs hq
  obtain ⟨e, he, h⟩ := touched_writeStore (List.mem_of_mem_take hs) hq
  rcases h with h | h
  · exact (hp e he).1 h
  · exact (hp e he).2 h

theorem get_run_writeFile_frame (atomic : Bool) (base key : String) (chunks : List String)
    (d : Disk) (p : Path) (hn : p ≠ notePath base key) (ht : p ≠ tmpPath base key) :
    get (run d (writeFile atomic base key chunks)) p = get d p := by
  have h := get_take_writeFile_frame atomic base key chunks d
    (writeFile atomic base key chunks).length p hn ht
  rwa [List.take_length] at h

theorem get_run_writeStore_frame (atomic : Bool) (base : String) (store : List (String × List String))
    (d : Disk) (p : Path)
    (hp : ∀ e ∈ store, p ≠ notePath base e.1 ∧ p ≠ tmpPath base e.1) :
    get (run d (writeStore atomic base store)) p = get d p := by
  have h := get_take_writeStore_frame atomic base store d (writeStore atomic base store).length p hp
  rwa [List.take_length] at h

/-! ### one atomic `writeFile` -/

theorem get_run_appends (chunks : List String) (d : Disk) (p : Path) :
    get (run d (chunks.map (Step.append p))) p
      = if chunks = [] then get d p else some ((get d p).getD "" ++ String.join chunks) := by
  induction chunks generalizing d with
  | nil => simp [run_nil]
  | cons c rest ih =>
    rw [List.map_cons, run_cons, ih]
    by_cases hr : rest = []
    · subst hr
      simp [apply, get_put, String.join_cons, String.join_nil]
    · simp [hr, apply, get_put, String.join_cons, String.append_assoc]

theorem get_run_trunc_appends (chunks : List String) (d : Disk) (p : Path) :
    get (run d ([Step.openTrunc p] ++ chunks.map (Step.append p))) p = some (String.join chunks) := by
  rw [List.singleton_append, run_cons, get_run_appends]
  by_cases hr : chunks = []
  · subst hr
    simp [apply, get_put, String.join_nil]
  · simp [hr, apply, get_put]

/-- the complete atomic write: the note holds the new text -/
theorem get_run_writeFile_note (base key : String) (chunks : List String) (d : Disk) :
    get (run d (writeFile true base key chunks)) (notePath base key) = some (String.join chunks) := by
  simp only [writeFile, if_true]
  rw [run_append, run_cons, run_nil]
  simp only [apply]
  rw [get_run_trunc_appends]
  simp [get_put]

/-- the complete atomic write: the temp file is gone -/
theorem get_run_writeFile_tmp (base key : String) (chunks : List String) (d : Disk)
    (hne : tmpPath base key ≠ notePath base key) :
    get (run d (writeFile true base key chunks)) (tmpPath base key) = none := by
  simp only [writeFile, if_true]
  rw [run_append, run_cons, run_nil]
  simp only [apply]
  rw [get_run_trunc_appends]
  simp [get_put, get_del, hne]

/-- every crash point of one atomic write leaves the note old or new -/
theorem get_take_writeFile_note (base key : String) (chunks : List String) (d : Disk) (k : Nat)
    (hne : tmpPath base key ≠ notePath base key) :
    get (run d ((writeFile true base key chunks).take k)) (notePath base key) = get d (notePath base key)
    ∨ get (run d ((writeFile true base key chunks).take k)) (notePath base key)
        = some (String.join chunks) := by
  by_cases hk : (writeFile true base key chunks).length ≤ k
  · right
    rw [List.take_of_length_le hk]
    exact get_run_writeFile_note base key chunks d
  · left
    apply get_run_of_not_touched
    intro s hs hq
    have hk' : k ≤ ([Step.openTrunc (tmpPath base key)]
        ++ chunks.map (Step.append (tmpPath base key))).length := by
      simp [writeFile] at hk ⊢
      omega
    simp only [writeFile, if_true] at hs
    rw [List.take_append_of_le_length hk'] at hs
    have hs' := List.mem_of_mem_take hs
    simp only [List.mem_append, List.mem_singleton, List.mem_map] at hs'
    rcases hs' with rfl | ⟨c, _, rfl⟩
    · simp [touched] at hq; exact hne hq.symm
    · simp [touched] at hq; exact hne hq.symm

/-! ### the error branch: `writeFileFailing` -/

/-- the steps before the `rename` do not change the note -/
theorem get_take_writeFile_note_old (base key : String) (chunks : List String) (d : Disk) (k : Nat)
    (hne : tmpPath base key ≠ notePath base key) (hk : k ≤ chunks.length + 1) :
    get (run d ((writeFile true base key chunks).take k)) (notePath base key)
      = get d (notePath base key) := by
  apply get_run_of_not_touched
  intro s hs hq
  have hk' : k ≤ ([Step.openTrunc (tmpPath base key)]
      ++ chunks.map (Step.append (tmpPath base key))).length := by
    simp
    omega
  simp only [writeFile, if_true] at hs
  rw [List.take_append_of_le_length hk'] at hs
  have hs' := List.mem_of_mem_take hs
  simp only [List.mem_append, List.mem_singleton, List.mem_map] at hs'
  rcases hs' with rfl | ⟨c, _, rfl⟩
  · simp [touched] at hq; exact hne hq.symm
  · simp [touched] at hq; exact hne hq.symm

theorem touched_writeFileFailing {base key : String} {chunks : List String} {k : Nat} {s : Step}
    (hs : s ∈ writeFileFailing base key chunks k) {q : Path} (hq : q ∈ touched s) :
    q = notePath base key ∨ q = tmpPath base key := by
  unfold writeFileFailing at hs
  by_cases hk : k ≤ chunks.length
  · simp only [if_pos hk, List.mem_append, List.mem_singleton] at hs
    rcases hs with hs | rfl
    · exact touched_writeFile (List.mem_of_mem_take hs) hq
    · simp [touched] at hq; exact Or.inr hq
  · simp only [if_neg hk] at hs
    exact touched_writeFile (List.mem_of_mem_take hs) hq

/-- frame lemma for a failing `writeFile` -/
theorem get_run_writeFileFailing_frame (base key : String) (chunks : List String)
    (d : Disk) (k : Nat) (p : Path) (hn : p ≠ notePath base key) (ht : p ≠ tmpPath base key) :
    get (run d (writeFileFailing base key chunks k)) p = get d p := by
  apply get_run_of_not_touched
  intro s hs hq
  rcases touched_writeFileFailing hs hq with h | h
  · exact hn h
  · exact ht h

/-- `k` past the last step: the failing write is the complete write -/
theorem writeFileFailing_of_length_lt (base key : String) (chunks : List String) (k : Nat)
    (hk : chunks.length + 1 < k) :
    writeFileFailing base key chunks k = writeFile true base key chunks := by
  unfold writeFileFailing
  have h1 : ¬ k ≤ chunks.length := by omega
  simp only [if_neg h1]
  apply List.take_of_length_le
  simp [writeFile]
  omega

theorem touched_writeStoreFailing {base : String} {store : List (String × List String)} {i k : Nat}
    {s : Step} (hs : s ∈ writeStoreFailing base store i k) {q : Path} (hq : q ∈ touched s) :
    ∃ e ∈ store, q = notePath base e.1 ∨ q = tmpPath base e.1 := by
  induction store generalizing i with
  | nil => simp [writeStoreFailing] at hs
  | cons e rest ih =>
    obtain ⟨key, chunks⟩ := e
    cases i with
    | zero =>
      simp only [writeStoreFailing] at hs
      exact ⟨(key, chunks), List.mem_cons_self, touched_writeFileFailing hs hq⟩
    | succ i =>
      simp only [writeStoreFailing, List.mem_append] at hs
      rcases hs with hs | hs
      · exact ⟨(key, chunks), List.mem_cons_self, touched_writeFile hs hq⟩
      · obtain ⟨e, he, h⟩ := ih hs
        exact ⟨e, List.mem_cons_of_mem _ he, h⟩

/-- frame lemma for a store run with a failing note -/
theorem get_run_writeStoreFailing_frame (base : String) (store : List (String × List String))
    (i k : Nat) (d : Disk) (p : Path)
    (hp : ∀ e ∈ store, p ≠ notePath base e.1 ∧ p ≠ tmpPath base e.1) :
    get (run d (writeStoreFailing base store i k)) p = get d p := by
  apply get_run_of_not_touched
  intro s hs hq
  obtain ⟨e, he, h⟩ := touched_writeStoreFailing hs hq
  rcases h with h | h
  · exact (hp e he).1 h
  · exact (hp e he).2 h

end Fs
end Iwe
