import IweModel.Model.Path

namespace Iwe.Path

/-- a legal path component (same as `ValidName` of `Props/C15.lean`) -/
def VName (s : Str) : Prop := s ≠ [] ∧ '/' ∉ s ∧ s ≠ ['.'] ∧ s ≠ ['.', '.']

/-- components that are `..` or a legal name -/
def CleanComp (c : Comp) : Prop := c = .parent ∨ ∃ n, c = .normal n ∧ VName n

def Clean (L : List Comp) : Prop := ∀ c ∈ L, CleanComp c

/-! ### `pieces` / `comps` / `render` -/

theorem pieces_noslash (s : Str) (acc : Str) (hs : '/' ∉ s) :
    pieces acc s = if acc ++ s = [] then [] else [acc ++ s] := by
  induction s generalizing acc with
  | nil => simp [pieces]
  | cons c cs ih =>
    have hc : c ≠ '/' := by intro h; apply hs; simp [h]
    have hcs : '/' ∉ cs := by intro h; apply hs; simp [h]
    simp [pieces, hc, ih _ hcs]

theorem pieces_append_slash (s : Str) (acc rest : Str) (hs : '/' ∉ s) :
    pieces acc (s ++ '/' :: rest)
      = if acc ++ s = [] then pieces [] rest else (acc ++ s) :: pieces [] rest := by
  induction s generalizing acc with
  | nil => simp [pieces]
  | cons c cs ih =>
    have hc : c ≠ '/' := by intro h; apply hs; simp [h]
    have hcs : '/' ∉ cs := by intro h; apply hs; simp [h]
    simp [pieces, hc, ih _ hcs]

theorem cleanComp_str {c : Comp} (h : CleanComp c) :
    compStr c ≠ [] ∧ '/' ∉ compStr c ∧ classify (compStr c) = c := by
  rcases h with rfl | ⟨n, rfl, h1, h2, h3, h4⟩
  · refine ⟨by simp [compStr], by simp [compStr], by simp [compStr, classify]⟩
  · exact ⟨h1, h2, by simp [compStr, classify, h3, h4]⟩

theorem render_cons_cons (c d : Comp) (L : List Comp) :
    render (c :: d :: L) = compStr c ++ '/' :: render (d :: L) := rfl

theorem comps_render (L : List Comp) (h : Clean L) : comps (render L) = L := by
  induction L with
  | nil => simp [render, comps, pieces]
  | cons c L ih =>
    obtain ⟨h1, h2, h3⟩ := cleanComp_str (h c (by simp))
    cases L with
    | nil => simp [render, comps, pieces_noslash _ _ h2, h1, h3]
    | cons d L =>
      have ih' := ih (fun x hx => h x (by simp [hx]))
      rw [render_cons_cons, comps, pieces_append_slash _ _ _ h2]
      simp only [List.nil_append, h1, if_false, List.map_cons, h3]
      rw [← comps, ih']

theorem render_append (L M : List Comp) (hL : L ≠ []) (hM : M ≠ []) :
    render (L ++ M) = render L ++ '/' :: render M := by
  induction L with
  | nil => exact absurd rfl hL
  | cons c L ih =>
    cases L with
    | nil =>
      cases M with
      | nil => exact absurd rfl hM
      | cons m M => simp [render]
    | cons d L =>
      have := ih (by simp)
      simp only [List.cons_append] at this ⊢
      rw [render_cons_cons, this, render_cons_cons]
      simp

/-! ### traversal -/

theorem trav_append (st a b : List Comp) : trav st (a ++ b) = trav (trav st a) b := by
  simp [trav, List.foldl_append]

theorem trav_normals (names : List Str) (st : List Comp) :
    trav st (names.map .normal) = (names.map Comp.normal).reverse ++ st := by
  induction names generalizing st with
  | nil => simp [trav]
  | cons n ns ih =>
    have : trav st (Comp.normal n :: ns.map .normal) = trav (.normal n :: st) (ns.map .normal) := rfl
    simp [this, ih]

theorem trav_pop (X : List Str) (st : List Comp) :
    trav (X.map .normal ++ st) (List.replicate X.length .parent) = st := by
  induction X with
  | nil => simp [trav]
  | cons x X ih =>
    have : trav (Comp.normal x :: (X.map .normal ++ st)) (.parent :: List.replicate X.length .parent)
        = trav (X.map .normal ++ st) (List.replicate X.length .parent) := rfl
    simpa [List.replicate_succ, this] using ih

theorem normalize_normals (D : List Str) : normalize (D.map .normal) = D.map .normal := by
  simp [normalize, trav_normals]

theorem strip_spec (D K : List Str) : ∃ P D' K', D = P ++ D' ∧ K = P ++ K' ∧
    stripCommon (D.map .normal) (K.map .normal) = (D'.map .normal, K'.map .normal) := by
  induction D generalizing K with
  | nil => exact ⟨[], [], K, rfl, rfl, by cases K <;> simp [stripCommon]⟩
  | cons d D ih =>
    cases K with
    | nil => exact ⟨[], d :: D, [], rfl, rfl, by simp [stripCommon]⟩
    | cons k K =>
      by_cases hdk : d = k
      · subst hdk
        obtain ⟨P, D', K', h1, h2, h3⟩ := ih K
        exact ⟨d :: P, D', K', by simp [h1], by simp [h2], by simpa [stripCommon] using h3⟩
      · exact ⟨[], d :: D, k :: K, rfl, rfl, by simp [stripCommon, hdk]⟩

theorem relative_normals (D K : List Str) : ∃ P D' K', D = P ++ D' ∧ K = P ++ K' ∧
    relative (D.map .normal) (K.map .normal)
      = List.replicate D'.length .parent ++ K'.map .normal := by
  obtain ⟨P, D', K', h1, h2, h3⟩ := strip_spec D K
  refine ⟨P, D', K', h1, h2, ?_⟩
  unfold relative
  rw [normalize_normals, normalize_normals, h3]
  cases D' with
  | nil => simp
  | cons d D' =>
    have : ∀ X : List Str, X.map ((fun _ => Comp.parent) ∘ Comp.normal)
        = List.replicate X.length .parent := by
      intro X; induction X <;> simp [*, List.replicate_succ]
    simp [this, List.replicate_succ]

theorem joinNormalized_relative (P D' K' : List Str) :
    joinNormalized ((P ++ D').map .normal) (List.replicate D'.length .parent ++ K'.map .normal)
      = (P ++ K').map .normal := by
  unfold joinNormalized
  rw [trav_normals, trav_append]
  have h := trav_pop D'.reverse (P.reverse.map .normal)
  simp only [List.length_reverse] at h
  simp only [List.map_append, List.reverse_append, List.append_nil, ← List.map_reverse]
  rw [h, trav_normals]
  simp

theorem joinNormalized_climb (D : List Str) :
    joinNormalized (D.map .normal) (List.replicate (D.length + 1) .parent) = [.parent] := by
  unfold joinNormalized
  rw [trav_normals, List.replicate_succ', trav_append]
  have h := trav_pop D.reverse []
  simp only [List.length_reverse, List.append_nil] at h
  simp only [List.append_nil, ← List.map_reverse]
  rw [h]
  rfl

/-! ### `.md` -/

abbrev dm : Str := ['d', 'm', '.']

theorem endsMd_eq (s : Str) : endsMd s = dm.isPrefixOf s.reverse := by
  simp [endsMd, List.isSuffixOf]

theorem trimMdRev_of_not_prefix (r : Str) (h : dm.isPrefixOf r = false) : trimMdRev r = r := by
  unfold trimMdRev
  split
  · simp [List.isPrefixOf] at h
  · rfl

theorem trimMdRev_not_prefix (r : Str) : dm.isPrefixOf (trimMdRev r) = false := by
  fun_induction trimMdRev r with
  | case1 rest ih => exact ih
  | case2 s h =>
    cases hp : dm.isPrefixOf s with
    | false => rfl
    | true =>
      rw [List.isPrefixOf_iff_prefix] at hp
      obtain ⟨t, rfl⟩ := hp
      exact absurd rfl (h t)

theorem trimMd_of_not_endsMd (s : Str) (h : endsMd s = false) : trimMd s = s := by
  rw [endsMd_eq] at h
  simp [trimMd, trimMdRev_of_not_prefix _ h]

theorem prefix_append (a b : Str) (hb : b = [] ∨ ∃ b', b = '/' :: b') :
    dm.isPrefixOf (a ++ b) = dm.isPrefixOf a := by
  rcases a with _ | ⟨x, _ | ⟨y, _ | ⟨z, a⟩⟩⟩
  · rcases hb with rfl | ⟨b', rfl⟩ <;> simp [List.isPrefixOf]
  · rcases hb with rfl | ⟨b', rfl⟩ <;> simp [List.isPrefixOf]
  · rcases hb with rfl | ⟨b', rfl⟩ <;> simp [List.isPrefixOf]
  · simp [List.isPrefixOf]

theorem endsMd_render_concat (L : List Comp) (c : Comp) :
    endsMd (render (L ++ [c])) = endsMd (compStr c) := by
  rw [endsMd_eq, endsMd_eq]
  cases L with
  | nil => simp [render]
  | cons d L =>
    rw [render_append _ _ (by simp) (by simp)]
    simp only [render, List.reverse_append, List.reverse_cons, List.append_assoc,
      List.singleton_append]
    exact prefix_append _ _ (Or.inr ⟨_, rfl⟩)

theorem endsMd_replicate_parent (n : Nat) :
    endsMd (render (List.replicate n .parent)) = false := by
  cases n with
  | zero => rfl
  | succ n => rw [List.replicate_succ', endsMd_render_concat]; rfl

/-- the link `../../k'` does not end in `.md` when the key `p/k'` does not -/
theorem endsMd_relative (n : Nat) (P K' : List Str)
    (h : endsMd (render ((P ++ K').map .normal)) = false) :
    endsMd (render (List.replicate n .parent ++ K'.map .normal)) = false := by
  rcases List.eq_nil_or_concat K' with rfl | ⟨K'', k, rfl⟩
  · simpa using endsMd_replicate_parent n
  · simp only [List.concat_eq_append, List.map_append, List.map_cons, List.map_nil,
      ← List.append_assoc] at h ⊢
    rw [endsMd_render_concat] at h ⊢
    exact h

/-! ### `pushStr` -/

theorem render_normals_head (k : Str) (K : List Str) (hk : k ≠ []) (hk' : '/' ∉ k) :
    ∃ a r, a ≠ '/' ∧ render ((k :: K).map .normal) = a :: r := by
  cases k with
  | nil => exact absurd rfl hk
  | cons a k =>
    have ha : a ≠ '/' := by intro h; apply hk'; simp [h]
    cases K with
    | nil => exact ⟨a, k, ha, by simp [render, compStr]⟩
    | cons k2 K => exact ⟨a, _, ha, by simp [render, compStr]; rfl⟩

theorem render_normals_last (D : List Str) (d : Str) (hd : d ≠ []) (hd' : '/' ∉ d) :
    ∃ r z, z ≠ '/' ∧ render ((D ++ [d]).map .normal) = r ++ [z] := by
  rcases List.eq_nil_or_concat d with rfl | ⟨d', z, rfl⟩
  · exact absurd rfl hd
  · have hz : z ≠ '/' := by intro h; apply hd'; simp [h]
    cases D with
    | nil => exact ⟨d', z, hz, by simp [render, compStr]⟩
    | cons x D =>
      refine ⟨render ((x :: D).map .normal) ++ '/' :: d', z, hz, ?_⟩
      rw [List.map_append, render_append _ _ (by simp) (by simp)]
      simp [render, compStr]

theorem pushStr_render (D K : List Str) (hD : ∀ s ∈ D, VName s) (hK : ∀ s ∈ K, VName s)
    (hne : K ≠ []) :
    pushStr (render (D.map .normal)) (render (K.map .normal)) = render ((D ++ K).map .normal) := by
  cases K with
  | nil => exact absurd rfl hne
  | cons k K =>
    obtain ⟨a, r, ha, hr⟩ := render_normals_head k K (hK k (by simp)).1 (hK k (by simp)).2.1
    have hpush : ∀ buf : Str, pushStr buf (a :: r)
        = (if buf ≠ [] ∧ buf.getLast? ≠ some '/' then buf ++ ['/'] else buf) ++ a :: r := by
      intro buf
      unfold pushStr
      split
      · rename_i h; simp at h; exact absurd h.1 ha
      · rfl
    rcases List.eq_nil_or_concat D with rfl | ⟨D', d, rfl⟩
    · rw [hr, hpush]; simp [render, ← hr]
    · have hd := hD d (by simp)
      obtain ⟨r', z, hz, hr'⟩ := render_normals_last D' d hd.1 hd.2.1
      simp only [List.concat_eq_append] at *
      have e : render ((D' ++ [d] ++ k :: K).map .normal)
          = render ((D' ++ [d]).map .normal) ++ '/' :: render ((k :: K).map .normal) := by
        rw [List.map_append, render_append _ _ (by simp) (by simp)]
      rw [e, hr', hr, hpush]
      simp [hz]

/-! ### the round trip -/

theorem clean_normals (K : List Str) (hK : ∀ s ∈ K, VName s) : Clean (K.map .normal) := by
  intro c hc
  obtain ⟨n, hn, rfl⟩ := List.mem_map.1 hc
  exact Or.inr ⟨n, rfl, hK n hn⟩

theorem clean_relative (n : Nat) (K : List Str) (hK : ∀ s ∈ K, VName s) :
    Clean (List.replicate n .parent ++ K.map .normal) := by
  intro c hc
  rcases List.mem_append.1 hc with h | h
  · exact Or.inl (List.eq_of_mem_replicate h)
  · exact clean_normals K hK c h

theorem render_eq_nil (L : List Comp) (h : Clean L) (hr : render L = []) : L = [] := by
  cases L with
  | nil => rfl
  | cons c L =>
    obtain ⟨h1, _, _⟩ := cleanComp_str (h c (by simp))
    cases L with
    | nil => exact absurd hr h1
    | cons d L =>
      rw [render_cons_cons] at hr
      simp at hr

theorem toRelLinkUrlBare_normals (K D : List Str) (hK : ∀ s ∈ K, VName s) (hD : ∀ s ∈ D, VName s) :
    ∃ P D' K', D = P ++ D' ∧ K = P ++ K' ∧
      toRelLinkUrlBare (render (K.map .normal)) (render (D.map .normal))
        = render (List.replicate D'.length .parent ++ K'.map .normal) := by
  obtain ⟨P, D', K', h1, h2, h3⟩ := relative_normals D K
  refine ⟨P, D', K', h1, h2, ?_⟩
  rw [toRelLinkUrlBare, comps_render _ (clean_normals K hK), comps_render _ (clean_normals D hD), h3]

/-- the bare url is empty only when the key is the linking directory itself -/
theorem toRelLinkUrlBare_eq_nil (K D : List Str) (hK : ∀ s ∈ K, VName s) (hD : ∀ s ∈ D, VName s)
    (hb : toRelLinkUrlBare (render (K.map .normal)) (render (D.map .normal)) = []) : K = D := by
  obtain ⟨P, D', K', h1, h2, h3⟩ := toRelLinkUrlBare_normals K D hK hD
  have hK' : ∀ s ∈ K', VName s := fun s hs => hK s (by simp [h2, hs])
  have hnil := render_eq_nil _ (clean_relative _ K' hK') (h3 ▸ hb)
  have h : D' = [] ∧ K' = [] := by
    simpa [List.append_eq_nil_iff, List.replicate_eq_nil_iff] using hnil
  rw [h1, h2, h.1, h.2]

theorem toRelLinkUrl_of_bare_ne (key rel : Str) (h : toRelLinkUrlBare key rel ≠ []) :
    toRelLinkUrl key rel = toRelLinkUrlBare key rel := by
  simp [toRelLinkUrl, h]

theorem fileName_normals (K : List Str) (k : Str) (hK : ∀ s ∈ K ++ [k], VName s) :
    fileName (render ((K ++ [k]).map .normal)) = some k := by
  rw [fileName, comps_render _ (clean_normals _ hK)]
  simp [fileNameRev]

/-- repair D34: a non-root key linked from the directory of the same name is written `../name` -/
theorem toRelLinkUrl_of_bare_nil (K : List Str) (k : Str) (rel : Str)
    (hK : ∀ s ∈ K ++ [k], VName s)
    (hb : toRelLinkUrlBare (render ((K ++ [k]).map .normal)) rel = []) :
    toRelLinkUrl (render ((K ++ [k]).map .normal)) rel = '.' :: '.' :: '/' :: k := by
  simp only [toRelLinkUrl, hb, fileName_normals K k hK, if_true]

theorem toRelLinkUrl_ne_nil (K D : List Str) (hK : ∀ s ∈ K, VName s) (hne : K ≠ []) :
    toRelLinkUrl (render (K.map .normal)) (render (D.map .normal)) ≠ [] := by
  by_cases hb : toRelLinkUrlBare (render (K.map .normal)) (render (D.map .normal)) = []
  · rcases List.eq_nil_or_concat K with rfl | ⟨K0, k, rfl⟩
    · exact absurd rfl hne
    · simp only [List.concat_eq_append] at *
      rw [toRelLinkUrl_of_bare_nil K0 k _ hK hb]
      simp
  · rw [toRelLinkUrl_of_bare_ne _ _ hb]
    exact hb

theorem toRelLinkUrl_normals (K D : List Str) (hK : ∀ s ∈ K, VName s) (hD : ∀ s ∈ D, VName s) :
    ∃ P D' K', D = P ++ D' ∧ K = P ++ K' ∧
      toRelLinkUrl (render (K.map .normal)) (render (D.map .normal))
        = render (List.replicate D'.length .parent ++ K'.map .normal) := by
  by_cases hb : toRelLinkUrlBare (render (K.map .normal)) (render (D.map .normal)) = []
  · have hKD := toRelLinkUrlBare_eq_nil K D hK hD hb
    subst hKD
    rcases List.eq_nil_or_concat K with rfl | ⟨K0, k, rfl⟩
    · exact ⟨[], [], [], rfl, rfl, by decide⟩
    · simp only [List.concat_eq_append] at *
      refine ⟨K0, [k], [k], rfl, rfl, ?_⟩
      rw [toRelLinkUrl_of_bare_nil K0 k _ hK hb]
      rfl
  · obtain ⟨P, D', K', h1, h2, h3⟩ := toRelLinkUrlBare_normals K D hK hD
    exact ⟨P, D', K', h1, h2, by rw [toRelLinkUrl_of_bare_ne _ _ hb, h3]⟩

theorem resolve_relative_core (K D : List Str) (hK : ∀ s ∈ K, VName s) (hD : ∀ s ∈ D, VName s)
    (hmd : endsMd (render (K.map .normal)) = false) :
    fromRelLinkUrl (toRelLinkUrl (render (K.map .normal)) (render (D.map .normal)))
        (render (D.map .normal))
      = render (K.map .normal) := by
  obtain ⟨P, D', K', rfl, rfl, h3⟩ := toRelLinkUrl_normals K D hK hD
  have hK' : ∀ s ∈ K', VName s := fun s hs => hK s (by simp [hs])
  rw [h3, fromRelLinkUrl, trimMd_of_not_endsMd _ (endsMd_relative _ P K' hmd),
    comps_render _ (clean_relative _ K' hK'), comps_render _ (clean_normals _ hD),
    joinNormalized_relative]

theorem render_map_compStr (L : List Comp) :
    render (L.map (fun c => Comp.normal (compStr c))) = render L := by
  induction L with
  | nil => rfl
  | cons c L ih =>
    cases L with
    | nil => rfl
    | cons d L =>
      simp only [List.map_cons] at ih ⊢
      rw [render_cons_cons, render_cons_cons, ih]
      rfl

theorem render_replicate_dotdot (n : Nat) :
    render ((List.replicate n ['.', '.']).map .normal) = render (List.replicate n .parent) := by
  rw [← render_map_compStr (List.replicate n .parent)]
  simp [List.map_replicate, compStr]

theorem stripCommon_prefix (D K : List Str) :
    stripCommon (D.map .normal) ((D ++ K).map .normal) = ([], K.map .normal) := by
  induction D with
  | nil => cases K <;> simp [stripCommon]
  | cons d D ih => simpa [stripCommon] using ih

theorem climbs_core (D : List Str) (hD : ∀ s ∈ D, VName s) :
    fromRelLinkUrl (render ((List.replicate (D.length + 1) ['.', '.']).map .normal))
        (render (D.map .normal))
      = ['.', '.'] := by
  rw [render_replicate_dotdot, fromRelLinkUrl, trimMd_of_not_endsMd _ (endsMd_replicate_parent _),
    comps_render _ (clean_normals _ hD), comps_render, joinNormalized_climb]
  · rfl
  · intro c hc; exact Or.inl (List.eq_of_mem_replicate hc)

theorem trimMd_append_md_core (u : Str) : trimMd (u ++ ['.', 'm', 'd']) = trimMd u := by
  simp [trimMd, trimMdRev]

theorem trimMd_not_endsMd (s : Str) : endsMd (trimMd s) = false := by
  rw [endsMd_eq, trimMd, List.reverse_reverse]
  exact trimMdRev_not_prefix _

theorem join_partial_core (K D : List Str) (hK : ∀ s ∈ K, VName s) (hD : ∀ s ∈ D, VName s)
    (hmd : endsMd (render ((D ++ K).map .normal)) = false) (hne : K ≠ []) :
    fromRelLinkUrlJoin (toRelLinkUrl (render ((D ++ K).map .normal)) (render (D.map .normal)))
        (render (D.map .normal))
      = render ((D ++ K).map .normal) := by
  have hDK : ∀ s ∈ D ++ K, VName s := by
    intro s hs; rcases List.mem_append.1 hs with h | h
    · exact hD s h
    · exact hK s h
  have hrel : relative (D.map .normal) ((D ++ K).map .normal) = K.map .normal := by
    unfold relative
    rw [normalize_normals, normalize_normals, stripCommon_prefix]
    simp
  have hmdK : endsMd (render (K.map .normal)) = false := by
    simpa using endsMd_relative 0 D K hmd
  have hbare : toRelLinkUrlBare (render ((D ++ K).map .normal)) (render (D.map .normal))
      = render (K.map .normal) := by
    rw [toRelLinkUrlBare, comps_render _ (clean_normals _ hDK), comps_render _ (clean_normals D hD),
      hrel]
  have hbne : toRelLinkUrlBare (render ((D ++ K).map .normal)) (render (D.map .normal)) ≠ [] := by
    rw [hbare]
    intro h
    exact hne (List.map_eq_nil_iff.1 (render_eq_nil _ (clean_normals K hK) h))
  rw [toRelLinkUrl_of_bare_ne _ _ hbne, hbare,
    fromRelLinkUrlJoin, trimMd_of_not_endsMd _ hmdK, pushStr_render D K hD hK hne]

end Iwe.Path
