/-
The executable check `Wf.wfCheck` accepts every arena that is well-formed in the sense of C20.
-/
import IweModel.Lemmas.ArenaGraph
namespace Iwe
namespace Arena

/-! ## the forest read back by `Wf.readForest` -/

mutual
theorem size_erase_tree (norm : Node → Node) : ∀ (t : BTree) (b : Nat),
    size (Wf.erase (treeWithIds norm b t)) = size t
  | .mk n lr cs, b => by simp [treeWithIds, Wf.erase, size, sizes_erase_forest norm cs]
theorem sizes_erase_forest (norm : Node → Node) : ∀ (ts : List BTree) (b : Nat),
    sizes (Wf.eraseL (forestWithIds norm b ts)) = sizes ts
  | [], b => by simp [forestWithIds, Wf.eraseL, sizes]
  | t :: ts, b => by
    simp [forestWithIds, Wf.eraseL, sizes, size_erase_tree norm t, sizes_erase_forest norm ts]
end

theorem firstPtr_erase (norm : Node → Node) (c b : Nat) (ts : List BTree) :
    firstPtr c (Wf.eraseL (forestWithIds norm b ts)) = firstPtr c ts := by
  cases ts <;> simp [forestWithIds, Wf.eraseL, firstPtr]

theorem isEmpty_erase (norm : Node → Node) (b : Nat) (ts : List BTree) :
    (Wf.eraseL (forestWithIds norm b ts)).isEmpty = ts.isEmpty := by
  cases ts <;> simp [forestWithIds, Wf.eraseL]

mutual
theorem shape_layoutTree_erase (norm : Node → Node) : ∀ (t : BTree) (b b' p : Nat) (h : Bool),
    (layoutTree b' p h (Wf.erase (treeWithIds norm b t))).map Wf.shape = (layoutTree b' p h t).map Wf.shape
  | .mk n lr cs, b, b', p, h => by
    simp only [treeWithIds, Wf.erase, layoutTree_mk, List.map_cons, firstPtr_erase, sizes_erase_forest,
      shape_layoutForest_erase norm cs]
    simp [Wf.shape]
theorem shape_layoutForest_erase (norm : Node → Node) : ∀ (ts : List BTree) (b b' p : Nat),
    (layoutForest b' p (Wf.eraseL (forestWithIds norm b ts))).map Wf.shape = (layoutForest b' p ts).map Wf.shape
  | [], b, b', p => by simp [forestWithIds, Wf.eraseL, layoutForest]
  | t :: ts, b, b', p => by
    simp only [forestWithIds, Wf.eraseL, layoutForest, List.map_append, shape_layoutTree_erase norm t,
      size_erase_tree, shape_layoutForest_erase norm ts, isEmpty_erase]
end

theorem readForest_embed (pre post : List GNode) (s : Seg) (hb : s.base = pre.length) :
    Wf.readForest (pre ++ s.nodes ++ post) s.base
      = Wf.eraseL (forestWithIds (fun _ => Node.rule) (s.base + 1) s.forest) := by
  have hlen : (pre ++ s.nodes ++ post).length = pre.length + (1 + sizes s.forest) + post.length := by
    simp [Seg.length_nodes]; omega
  generalize hfuel : 2 * (pre ++ s.nodes ++ post).length + 2 = fuel at *
  have h1 := (collect_embed (fun _ => Node.rule) fuel).2 s.forest
    (pre ++ [GNode.document pre.length (firstPtr (pre.length + 1) s.forest) s.key])
    post (pre.length + 1) pre.length (by simp) (by omega)
  simp only [List.append_assoc, List.cons_append, List.nil_append] at h1
  simp only [Wf.readForest]
  rw [hfuel]
  simp only [Seg.nodes, layoutDoc_eq, hb, List.append_assoc, List.cons_append, get_at_length, GNode.child?]
  rw [← h1]
  cases firstPtr (pre.length + 1) s.forest <;> simp [collOpt, Wf.eraseL]

theorem segLen_embed (pre post : List GNode) (s : Seg) (hb : s.base = pre.length) :
    Wf.segLen (pre ++ s.nodes ++ post) s.base = s.nodes.length := by
  rw [Wf.segLen, readForest_embed pre post s hb, sizes_erase_forest, Seg.length_nodes]

theorem segmentOk_embed (pre post : List GNode) (s : Seg) (hb : s.base = pre.length) :
    Wf.segmentOk (pre ++ s.nodes ++ post) s.key s.base = true := by
  have hg : get (pre ++ s.nodes ++ post) s.base = GNode.document s.base (firstPtr (s.base + 1) s.forest) s.key := by
    simp only [Seg.nodes, layoutDoc_eq, hb, List.append_assoc, List.cons_append, get_at_length]
  have hdrop : ((pre ++ s.nodes ++ post).drop s.base).take s.nodes.length = s.nodes := by
    simp [hb]
  simp only [Wf.segmentOk, hg, segLen_embed pre post s hb, hdrop, readForest_embed pre post s hb]
  simp only [Seg.nodes, layoutDoc_eq, List.map_cons, firstPtr_erase, shape_layoutForest_erase]
  simp

end Arena

theorem Covers.disjoint {off : Nat} {segs : List Seg} {a : List GNode} (h : Covers off segs a) :
    ∀ s ∈ segs, ∀ t ∈ segs, s.key ≠ t.key →
      s.base + s.nodes.length ≤ t.base ∨ t.base + t.nodes.length ≤ s.base := by
  induction h with
  | nil off => intro s hs; simp at hs
  | gap h ih => exact ih
  | @seg off s' segs a hb h ih =>
    intro s hs t ht hne
    rcases List.mem_cons.1 hs with rfl | hs' <;> rcases List.mem_cons.1 ht with rfl | ht'
    · exact absurd rfl hne
    · have := Covers.bounds h t ht'; left; omega
    · have := Covers.bounds h s hs'; right; omega
    · exact ih s hs' t ht' hne

namespace Wf

theorem keysDistinct_of_nodup : ∀ (keys : List (String × Nat)),
    (keys.map (·.1)).Nodup → keysDistinct keys = true
  | [], _ => rfl
  | p :: ps, h => by
    simp only [List.map_cons, List.nodup_cons] at h
    simp only [keysDistinct, Bool.and_eq_true, List.all_eq_true]
    refine ⟨?_, keysDistinct_of_nodup ps h.2⟩
    intro q hq
    simp
    intro heq
    exact h.1 (List.mem_map.2 ⟨q, hq, heq⟩)

theorem disjointSegments_of (a : List GNode) : ∀ (keys : List (String × Nat)),
    (keys.map (·.1)).Nodup →
    (∀ p ∈ keys, ∀ q ∈ keys, p.1 ≠ q.1 → p.2 + segLen a p.2 ≤ q.2 ∨ q.2 + segLen a q.2 ≤ p.2) →
    disjointSegments a keys = true
  | [], _, _ => rfl
  | p :: ps, h, hd => by
    simp only [List.map_cons, List.nodup_cons] at h
    simp only [disjointSegments, Bool.and_eq_true, List.all_eq_true]
    refine ⟨?_, disjointSegments_of a ps h.2 (fun p' hp' q' hq' => hd p' (by simp [hp']) q' (by simp [hq']))⟩
    intro q hq
    have := hd p (by simp) q (by simp [hq]) (by
      intro heq; exact h.1 (List.mem_map.2 ⟨q, hq, heq.symm⟩))
    simpa using this

theorem wfCheck_of_WFWith {segs : List Seg} {a : List GNode} {keys : List (String × Nat)}
    (h : WFWith segs a keys) : wfCheck a keys = true := by
  obtain ⟨hc, hkeys, hnd, hknd⟩ := h
  have hlen : ∀ s ∈ segs, segLen a s.base = s.nodes.length := by
    intro s hs
    obtain ⟨pre, post, rfl, hb⟩ := hc.mem_split s hs
    exact Arena.segLen_embed pre post s (by omega)
  simp only [wfCheck, Bool.and_eq_true]
  refine ⟨⟨⟨keysDistinct_of_nodup keys hknd, ?_⟩, ?_⟩, ?_⟩
  · rw [List.all_eq_true]
    rintro ⟨k, id⟩ hp
    obtain ⟨s, hs, rfl, rfl⟩ := (hkeys k id).1 hp
    obtain ⟨pre, post, rfl, hb⟩ := hc.mem_split s hs
    exact Arena.segmentOk_embed pre post s (by omega)
  · apply disjointSegments_of a keys hknd
    rintro ⟨k, id⟩ hp ⟨k', id'⟩ hq hne
    obtain ⟨s, hs, rfl, rfl⟩ := (hkeys k id).1 hp
    obtain ⟨t, ht, rfl, rfl⟩ := (hkeys k' id').1 hq
    simp only [hlen s hs, hlen t ht]
    exact hc.disjoint s hs t ht hne
  · rw [List.all_eq_true]
    intro i hi
    simp only [List.mem_range] at hi
    cases he : (Arena.get a i).isEmpty with
    | true => rfl
    | false =>
      obtain ⟨s, hs, h1, h2⟩ := hc.live_in_seg i hi he
      simp only [Bool.false_or, inSomeSegment, List.any_eq_true]
      refine ⟨(s.key, s.base), (hkeys _ _).2 ⟨s, hs, rfl, rfl⟩, ?_⟩
      simp only [hlen s hs]
      simp; omega

end Wf
end Iwe
