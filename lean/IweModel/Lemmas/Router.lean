/- helper lemmas for C11 / C12 -/
import IweModel.Model.Router

namespace Iwe
namespace Router

/-! ### message lists -/

/-- the messages an action adds to the wire -/
def sentOf : Act → List Msg
  | .send m => [m]
  | .advance _ => []

theorem sent_cons (a : Act) (acts : List Act) : sent (a :: acts) = sentOf a ++ sent acts := by
  cases a <;> simp [sent, sentOf]

theorem reqIds_append (l r : List Msg) : reqIds (l ++ r) = reqIds l ++ reqIds r := by
  induction l with
  | nil => simp [reqIds]
  | cons m l ih => cases m <;> simp [reqIds, ih]

theorem mem_reqIds_iff {id : Nat} {l : List Msg} :
    id ∈ reqIds l ↔ ∃ n o, Msg.req id n o ∈ l := by
  induction l with
  | nil => simp [reqIds]
  | cons m l ih =>
    cases m with
    | req i n o =>
      simp only [reqIds, List.mem_cons, ih]
      constructor
      · rintro (h | ⟨n', o', h⟩)
        · exact ⟨n, o, Or.inl (by rw [h])⟩
        · exact ⟨n', o', Or.inr h⟩
      · rintro ⟨n', o', h | h⟩
        · left; injection h
        · exact Or.inr ⟨n', o', h⟩
    | notif n v =>
      simp only [reqIds, List.mem_cons, ih]
      constructor
      · rintro ⟨n', o', h⟩; exact ⟨n', o', Or.inr h⟩
      · rintro ⟨n', o', h | h⟩
        · cases h
        · exact ⟨n', o', h⟩

theorem mem_reqIds_of_mem {id n : Nat} {o : Outcome} {l : List Msg} (h : Msg.req id n o ∈ l) :
    id ∈ reqIds l := mem_reqIds_iff.2 ⟨n, o, h⟩

/-- with distinct request ids a request is determined by its id -/
theorem req_unique {l : List Msg} (hnd : (reqIds l).Nodup) {id n n' : Nat} {o o' : Outcome}
    (h : Msg.req id n o ∈ l) (h' : Msg.req id n' o' ∈ l) : n = n' ∧ o = o' := by
  induction l with
  | nil => cases h
  | cons m l ih =>
    cases m with
    | notif a b =>
      simp only [reqIds] at hnd
      rcases List.mem_cons.1 h with h | h
      · cases h
      rcases List.mem_cons.1 h' with h' | h'
      · cases h'
      exact ih hnd h h'
    | req i a b =>
      simp only [reqIds, List.nodup_cons] at hnd
      rcases List.mem_cons.1 h with h | h <;> rcases List.mem_cons.1 h' with h' | h'
      · injection h with h1 h2 h3; injection h' with h1' h2' h3'
        exact ⟨h2.trans h2'.symm, h3.trans h3'.symm⟩
      · injection h with h1 h2 h3
        exact absurd (mem_reqIds_of_mem h') (h1 ▸ hnd.1)
      · injection h' with h1 h2 h3
        exact absurd (mem_reqIds_of_mem h) (h1 ▸ hnd.1)
      · exact ih hnd.2 h h'

theorem applyNotifs_append (t : List (Nat × Nat)) (l r : List Msg) :
    applyNotifs t (l ++ r) = applyNotifs (applyNotifs t l) r := by
  induction l generalizing t with
  | nil => simp [applyNotifs]
  | cons m l ih => cases m <;> simp [applyNotifs, ih]

theorem before_append_of_mem {id : Nat} {l : List Msg} (r : List Msg) (h : id ∈ reqIds l) :
    before id (l ++ r) = before id l := by
  induction l with
  | nil => simp [reqIds] at h
  | cons m l ih =>
    cases m with
    | notif a b =>
      simp only [reqIds] at h
      simp [before, ih h]
    | req i a b =>
      simp only [reqIds, List.mem_cons] at h
      by_cases hi : i = id
      · simp [before, hi]
      · have h' : id ∈ reqIds l := by
          rcases h with h | h
          · exact absurd h.symm hi
          · exact h
        simp [before, hi, ih h']

theorem before_append_of_not_mem {id : Nat} {l : List Msg} (r : List Msg) (h : id ∉ reqIds l) :
    before id (l ++ r) = l ++ before id r := by
  induction l with
  | nil => simp
  | cons m l ih =>
    cases m with
    | notif a b =>
      simp only [reqIds] at h
      simp [before, ih h]
    | req i a b =>
      simp only [reqIds, List.mem_cons, not_or] at h
      have hi : ¬ i = id := fun e => h.1 e.symm
      simp [before, hi, ih h.2]

theorem before_req_self (id n : Nat) (o : Outcome) (r : List Msg) :
    before id (Msg.req id n o :: r) = [] := by
  simp [before]

/-! ### one worker step, by cases -/

theorem advanceWorker_elim {P : St → Prop} (cfg : Config) (st : St) (id : Nat)
    (hnone : (∀ x ∈ st.workers, x.id ≠ id) → P st)
    (hpanicC : ∀ w ∈ st.workers, w.id = id → w.phase = 0 → w.outcome = .panic → cfg.catchPanics = true →
        P { st with workers := st.workers.filter (fun x => !(x.id == id)),
                    outbox := st.outbox ++ [(id, Reply.error)] })
    (hpanicD : ∀ w ∈ st.workers, w.id = id → w.phase = 0 → w.outcome = .panic → cfg.catchPanics = false →
        P { st with workers := st.workers.filter (fun x => !(x.id == id)), dead := st.dead ++ [id] })
    (hcompute : ∀ w ∈ st.workers, w.id = id → w.phase = 0 → w.outcome ≠ .panic →
        P { st with workers := st.workers.map fun x =>
              if x.id == id then { x with phase := 1, seen := version st.texts w.note } else x })
    (hsend : ∀ w ∈ st.workers, w.id = id → w.phase = 1 →
        P { st with outbox := st.outbox ++ [(id, match w.outcome with
                                                  | .ok => Reply.result w.seen
                                                  | _ => Reply.error)],
                    workers := st.workers.map fun x => if x.id == id then { x with phase := 2 } else x })
    (hfinish : ∀ w ∈ st.workers, w.id = id → 2 ≤ w.phase →
        P { st with workers := st.workers.filter (fun x => !(x.id == id)) }) :
    P (advanceWorker cfg st id) := by
  unfold advanceWorker
  split
  · next hf =>
    apply hnone
    intro x hx
    have := List.find?_eq_none.1 hf x hx
    simpa using this
  · next w hf =>
    have hw : w ∈ st.workers := List.mem_of_find?_eq_some hf
    have hid : w.id = id := by simpa using List.find?_some hf
    simp only []
    split
    · next hp =>
      split
      · next ho =>
        split
        · next hc => exact hpanicC w hw hid hp ho hc
        · next hc => exact hpanicD w hw hid hp ho (by simpa using hc)
      · next ho => exact hcompute w hw hid hp (fun e => ho e)
    · next hp => exact hsend w hw hid hp
    · next h0 h1 =>
      have h0' : w.phase ≠ 0 := h0
      have h1' : w.phase ≠ 1 := h1
      exact hfinish w hw hid (by omega)

/-! ### the invariant -/

/-- facts about a state whose loop has consumed the messages `c` (no assumption on request ids) -/
structure Inv (cfg : Config) (c : List Msg) (st : St) : Prop where
  wreq : ∀ w ∈ st.workers, Msg.req w.id w.note w.outcome ∈ c
  wphase : ∀ w ∈ st.workers, w.phase ≤ 2
  osub : ∀ r ∈ st.outbox, r.1 ∈ reqIds c
  cover : ∀ id ∈ reqIds c, id ∈ st.outbox.map (·.1) ∨ id ∈ st.workers.map (·.id) ∨ id ∈ st.dead
  ph2 : ∀ w ∈ st.workers, 2 ≤ w.phase → w.id ∈ st.outbox.map (·.1)
  deadp : ∀ id ∈ st.dead, cfg.catchPanics = false ∧ ∃ n, Msg.req id n .panic ∈ c
  drop : cfg.waitForWorkers = true → st.dropped = []
  txt : cfg.waitForWorkers = true → st.texts = applyNotifs [] c

/-- facts that need distinct request ids -/
structure InvN (cfg : Config) (c : List Msg) (st : St) : Prop where
  ond : (st.outbox.map (·.1)).Nodup
  wnd : (st.workers.map (·.id)).Nodup
  ofresh : ∀ w ∈ st.workers, w.phase < 2 → w.id ∉ st.outbox.map (·.1)
  wtxt : cfg.waitForWorkers = true → ∀ w ∈ st.workers, applyNotifs [] (before w.id c) = st.texts
  seen : cfg.waitForWorkers = true → ∀ w ∈ st.workers, 1 ≤ w.phase → w.seen = version st.texts w.note
  rep : cfg.waitForWorkers = true → ∀ id ver, (id, Reply.result ver) ∈ st.outbox →
      ∃ n o, Msg.req id n o ∈ c ∧ ver = version (applyNotifs [] (before id c)) n

theorem worker_unique {l : List Worker} (hnd : (l.map (·.id)).Nodup) {w w' : Worker}
    (hw : w ∈ l) (hw' : w' ∈ l) (hid : w.id = w'.id) : w = w' := by
  induction l with
  | nil => cases hw
  | cons x l ih =>
    simp only [List.map_cons, List.nodup_cons, List.mem_map, not_exists, not_and] at hnd
    rcases List.mem_cons.1 hw with h | h <;> rcases List.mem_cons.1 hw' with h' | h'
    · rw [h, h']
    · exact absurd (h ▸ hid).symm (hnd.1 w' h')
    · exact absurd (h' ▸ hid) (hnd.1 w h)
    · exact ih hnd.2 h h'

theorem map_id_map_upd (l : List Worker) (id : Nat) (f : Worker → Worker) (hf : ∀ x, (f x).id = x.id) :
    (l.map fun x => if x.id == id then f x else x).map (·.id) = l.map (·.id) := by
  rw [List.map_map]
  apply List.map_congr_left
  intro x _
  simp only [Function.comp]
  split <;> simp [hf]

theorem Inv.advance {cfg : Config} {c : List Msg} {st : St} (h : Inv cfg c st) (id : Nat) :
    Inv cfg c (advanceWorker cfg st id) := by
  obtain ⟨h1, h2, h3, h4, h5, h6, h7, h8⟩ := h
  apply advanceWorker_elim
  · intro _; exact ⟨h1, h2, h3, h4, h5, h6, h7, h8⟩
  · intro w hw hid hp ho hc
    constructor <;> grind [mem_reqIds_of_mem]
  · intro w hw hid hp ho hc
    constructor <;> grind [mem_reqIds_of_mem]
  · intro w hw hid hp ho
    constructor <;> grind [mem_reqIds_of_mem]
  · intro w hw hid hp
    constructor <;> grind [mem_reqIds_of_mem]
  · intro w hw hid hp
    constructor <;> grind [mem_reqIds_of_mem]

theorem nodup_filter_ids {l : List Worker} (hnd : (l.map (·.id)).Nodup) (p : Worker → Bool) :
    ((l.filter p).map (·.id)).Nodup :=
  List.Nodup.sublist (List.Sublist.map _ List.filter_sublist) hnd

theorem nodup_snoc {l : List Nat} {a : Nat} (hnd : l.Nodup) (ha : a ∉ l) : (l ++ [a]).Nodup := by
  rw [List.nodup_append]
  refine ⟨hnd, by simp, ?_⟩
  intro x hx y hy
  simp only [List.mem_singleton] at hy
  subst hy
  intro e; subst e; exact ha hx

theorem InvN.advance {cfg : Config} {c : List Msg} {st : St} (h : Inv cfg c st) (hn : InvN cfg c st)
    (id : Nat) : InvN cfg c (advanceWorker cfg st id) := by
  obtain ⟨h1, h2, h3, h4, h5, h6, h7, h8⟩ := h
  obtain ⟨n1, n2, n3, n4, n5, n6⟩ := hn
  apply advanceWorker_elim
  · intro _; exact ⟨n1, n2, n3, n4, n5, n6⟩
  · intro w hw hid hp ho hc
    constructor
    · simp only [List.map_append, List.map_cons, List.map_nil]
      exact nodup_snoc n1 (hid ▸ n3 w hw (by omega))
    · exact nodup_filter_ids n2 _
    all_goals grind
  · intro w hw hid hp ho hc
    constructor
    · exact n1
    · exact nodup_filter_ids n2 _
    all_goals grind
  · intro w hw hid hp ho
    have hu : ∀ x ∈ st.workers, x.id = id → x = w := fun x hx e => worker_unique n2 hx hw (e.trans hid.symm)
    constructor
    · exact n1
    · simp only []
      rw [map_id_map_upd _ _ (fun x => { x with phase := 1, seen := version st.texts w.note }) (fun _ => rfl)]
      exact n2
    all_goals grind
  · intro w hw hid hp
    have hu : ∀ x ∈ st.workers, x.id = id → x = w := fun x hx e => worker_unique n2 hx hw (e.trans hid.symm)
    constructor
    · simp only [List.map_append, List.map_cons, List.map_nil]
      exact nodup_snoc n1 (hid ▸ n3 w hw (by omega))
    · simp only []
      rw [map_id_map_upd _ _ (fun x => { x with phase := 2 }) (fun _ => rfl)]
      exact n2
    all_goals grind
  · intro w hw hid hp
    constructor
    · exact n1
    · exact nodup_filter_ids n2 _
    all_goals grind

/-! ### the loop consumes one message -/

theorem Inv.consume_req {cfg : Config} {c : List Msg} {st : St} (h : Inv cfg c st)
    (id n : Nat) (o : Outcome) (rest : List Msg) :
    Inv cfg (c ++ [Msg.req id n o])
      { st with inbox := rest, workers := st.workers ++ [⟨id, n, o, 0, 0⟩] } := by
  obtain ⟨h1, h2, h3, h4, h5, h6, h7, h8⟩ := h
  constructor
  · grind
  · grind
  · intro r hr; rw [reqIds_append]; exact List.mem_append_left _ (h3 r hr)
  · intro i hi
    rw [reqIds_append] at hi
    simp only [reqIds, List.mem_append, List.mem_singleton] at hi
    rcases hi with hi | hi
    · grind
    · grind
  · grind
  · grind
  · exact h7
  · intro hw; simp [applyNotifs_append, applyNotifs, h8 hw]

theorem InvN.consume_req {cfg : Config} {c : List Msg} {st : St} (h : Inv cfg c st) (hn : InvN cfg c st)
    (id n : Nat) (o : Outcome) (rest : List Msg) (hid : id ∉ reqIds c) :
    InvN cfg (c ++ [Msg.req id n o])
      { st with inbox := rest, workers := st.workers ++ [⟨id, n, o, 0, 0⟩] } := by
  obtain ⟨h1, h2, h3, h4, h5, h6, h7, h8⟩ := h
  obtain ⟨n1, n2, n3, n4, n5, n6⟩ := hn
  have hwid : ∀ w ∈ st.workers, w.id ∈ reqIds c := fun w hw => mem_reqIds_of_mem (h1 w hw)
  constructor
  · exact n1
  · simp only [List.map_append, List.map_cons, List.map_nil]
    apply nodup_snoc n2
    intro hm
    obtain ⟨w, hw, e⟩ := List.mem_map.1 hm
    exact hid (e ▸ hwid w hw)
  · intro w hw hp hm
    rcases List.mem_append.1 hw with hw | hw
    · exact n3 w hw hp hm
    · simp only [List.mem_singleton] at hw
      subst hw
      obtain ⟨r, hr, e⟩ := List.mem_map.1 hm
      have e' : r.1 = id := e
      exact hid (e' ▸ h3 r hr)
  · intro hwf w hw
    rcases List.mem_append.1 hw with hw | hw
    · rw [before_append_of_mem _ (hwid w hw)]; exact n4 hwf w hw
    · simp only [List.mem_singleton] at hw
      subst hw
      simp only []
      rw [before_append_of_not_mem _ hid, before_req_self, List.append_nil]
      exact (h8 hwf).symm
  · intro hwf w hw hp
    rcases List.mem_append.1 hw with hw | hw
    · exact n5 hwf w hw hp
    · simp only [List.mem_singleton] at hw
      subst hw
      simp at hp
  · intro hwf i ver hm
    obtain ⟨a, b, hab, e⟩ := n6 hwf i ver hm
    refine ⟨a, b, List.mem_append_left _ hab, ?_⟩
    rw [before_append_of_mem _ (h3 _ hm)]; exact e

theorem Inv.consume_notif {cfg : Config} {c : List Msg} {st : St} (h : Inv cfg c st)
    (n v : Nat) (rest : List Msg) :
    Inv cfg (c ++ [Msg.notif n v])
      { st with inbox := rest, texts := setVersion st.texts n v } := by
  obtain ⟨h1, h2, h3, h4, h5, h6, h7, h8⟩ := h
  have hr : reqIds (c ++ [Msg.notif n v]) = reqIds c := by simp [reqIds_append, reqIds]
  constructor
  · grind
  · grind
  · rw [hr]; exact h3
  · rw [hr]; exact h4
  · grind
  · grind
  · exact h7
  · intro hwf; simp [applyNotifs_append, applyNotifs, h8 hwf]

theorem InvN.consume_notif {cfg : Config} {c : List Msg} {st : St} (h : Inv cfg c st) (hn : InvN cfg c st)
    (n v : Nat) (rest : List Msg) (hw : st.workers = []) :
    InvN cfg (c ++ [Msg.notif n v])
      { st with inbox := rest, texts := setVersion st.texts n v } := by
  obtain ⟨n1, n2, n3, n4, n5, n6⟩ := hn
  constructor
  · exact n1
  · exact n2
  · exact n3
  · intro _ w hw'; simp [hw] at hw'
  · intro _ w hw'; simp [hw] at hw'
  · intro hwf i ver hm
    obtain ⟨a, b, hab, e⟩ := n6 hwf i ver hm
    refine ⟨a, b, List.mem_append_left _ hab, ?_⟩
    rw [before_append_of_mem _ (h.osub _ hm)]; exact e

theorem Inv.drop_notif {cfg : Config} {c : List Msg} {st : St} (h : Inv cfg c st)
    (n v : Nat) (rest : List Msg) (hwf : cfg.waitForWorkers = false) :
    Inv cfg (c ++ [Msg.notif n v])
      { st with inbox := rest, dropped := st.dropped ++ [(n, v)] } := by
  obtain ⟨h1, h2, h3, h4, h5, h6, h7, h8⟩ := h
  have hr : reqIds (c ++ [Msg.notif n v]) = reqIds c := by simp [reqIds_append, reqIds]
  constructor
  · grind
  · grind
  · rw [hr]; exact h3
  · rw [hr]; exact h4
  · grind
  · grind
  · intro h; simp [hwf] at h
  · intro h; simp [hwf] at h

theorem InvN.drop_notif {cfg : Config} {c : List Msg} {st : St} (hn : InvN cfg c st)
    (n v : Nat) (rest : List Msg) (hwf : cfg.waitForWorkers = false) :
    InvN cfg (c ++ [Msg.notif n v])
      { st with inbox := rest, dropped := st.dropped ++ [(n, v)] } := by
  obtain ⟨n1, n2, n3, n4, n5, n6⟩ := hn
  constructor
  · exact n1
  · exact n2
  · exact n3
  · intro h; simp [hwf] at h
  · intro h; simp [hwf] at h
  · intro h; simp [hwf] at h

/-! ### the loop runs as far as it can -/

theorem not_mem_of_nodup_middle {c rest : List Msg} {id n : Nat} {o : Outcome}
    (hnd : (reqIds (c ++ Msg.req id n o :: rest)).Nodup) : id ∉ reqIds c := by
  rw [reqIds_append, List.nodup_append] at hnd
  intro hm
  exact hnd.2.2 id hm id (by simp [reqIds]) rfl

theorem eager_inv (cfg : Config) (fuel : Nat) : ∀ (c : List Msg) (st : St), Inv cfg c st →
    ∃ c', c' ++ (eager cfg fuel st).inbox = c ++ st.inbox ∧ Inv cfg c' (eager cfg fuel st) ∧
      ((reqIds (c ++ st.inbox)).Nodup → InvN cfg c st → InvN cfg c' (eager cfg fuel st)) := by
  induction fuel with
  | zero => intro c st h; exact ⟨c, rfl, h, fun _ hn => hn⟩
  | succ fuel ih =>
    intro c st h
    unfold eager
    split
    · exact ⟨c, rfl, h, fun _ hn => hn⟩
    · next id note oc rest hin =>
      obtain ⟨c', e, hi, hn'⟩ := ih (c ++ [.req id note oc]) _ (h.consume_req id note oc rest)
      refine ⟨c', ?_, hi, ?_⟩
      · rw [e, hin]; simp
      · intro hnd hn
        rw [hin] at hnd
        apply hn'
        · simpa using hnd
        · exact InvN.consume_req h hn id note oc rest (not_mem_of_nodup_middle hnd)
    · next note ver rest hin =>
      split
      · next hemp =>
        have hemp' : st.workers = [] := by simpa using hemp
        obtain ⟨c', e, hi, hn'⟩ := ih (c ++ [.notif note ver]) _ (h.consume_notif note ver rest)
        refine ⟨c', ?_, hi, ?_⟩
        · rw [e, hin]; simp
        · intro hnd hn
          rw [hin] at hnd
          apply hn'
          · simpa using hnd
          · exact InvN.consume_notif h hn note ver rest hemp'
      · split
        · exact ⟨c, rfl, h, fun _ hn => hn⟩
        · next hwf =>
          have hwf' : cfg.waitForWorkers = false := by simpa using hwf
          obtain ⟨c', e, hi, hn'⟩ := ih (c ++ [.notif note ver]) _ (h.drop_notif note ver rest hwf')
          refine ⟨c', ?_, hi, ?_⟩
          · rw [e, hin]; simp
          · intro hnd hn
            rw [hin] at hnd
            apply hn'
            · simpa using hnd
            · exact InvN.drop_notif hn note ver rest hwf'

/-- with enough fuel the loop stops only at an empty inbox or blocked behind a live worker -/
theorem eager_settled (cfg : Config) (fuel : Nat) : ∀ (st : St), st.inbox.length < fuel →
    (eager cfg fuel st).workers = [] → (eager cfg fuel st).inbox = [] := by
  induction fuel with
  | zero => intro st h; omega
  | succ fuel ih =>
    intro st hl
    unfold eager
    split
    · next hin => intro _; exact hin
    · next id note oc rest hin =>
      apply ih
      simp only [hin, List.length_cons] at hl ⊢
      omega
    · next note ver rest hin =>
      have hl' : rest.length < fuel := by
        simp only [hin, List.length_cons] at hl
        omega
      split
      · exact ih _ hl'
      · next hne =>
        split
        · intro hw; simp [hw] at hne
        · exact ih _ hl'

theorem settle_settled (cfg : Config) (st : St) :
    (settle cfg st).workers = [] → (settle cfg st).inbox = [] :=
  eager_settled cfg _ st (Nat.lt_succ_self _)

/-! ### reachable states -/

def Reach (cfg : Config) (l : List Msg) (st : St) : Prop :=
  ∃ c, c ++ st.inbox = l ∧ Inv cfg c st ∧ ((reqIds l).Nodup → InvN cfg c st)

theorem Reach.init (cfg : Config) : Reach cfg [] {} := by
  refine ⟨[], rfl, ?_, fun _ => ?_⟩
  · constructor <;> simp [applyNotifs, reqIds]
  · constructor <;> simp

theorem Reach.settle {cfg : Config} {l : List Msg} {st : St} (h : Reach cfg l st) :
    Reach cfg l (settle cfg st) := by
  obtain ⟨c, e, hi, hn⟩ := h
  obtain ⟨c', e', hi', hn'⟩ := eager_inv cfg (st.inbox.length + 1) c st hi
  refine ⟨c', e'.trans e, hi', fun hnd => hn' (e ▸ hnd) (hn hnd)⟩

theorem Reach.step {cfg : Config} {l : List Msg} {st : St} (h : Reach cfg l st) (a : Act) :
    Reach cfg (l ++ sentOf a) (step cfg st a) := by
  obtain ⟨c, e, hi, hn⟩ := h
  cases a with
  | send m =>
    apply Reach.settle
    refine ⟨c, by simp [sentOf, ← e], ⟨hi.1, hi.2, hi.3, hi.4, hi.5, hi.6, hi.7, hi.8⟩, fun hnd => ?_⟩
    have hnd' : (reqIds l).Nodup := by
      rw [reqIds_append, List.nodup_append] at hnd
      exact hnd.1
    have := hn hnd'
    exact ⟨this.1, this.2, this.3, this.4, this.5, this.6⟩
  | advance id =>
    apply Reach.settle
    refine ⟨c, ?_, hi.advance id, fun hnd => ?_⟩
    · simp only [sentOf, List.append_nil]
      rw [← e]
      congr 1
      apply advanceWorker_elim (P := fun s => s.inbox = st.inbox) <;> intros <;> rfl
    · simp only [sentOf, List.append_nil] at hnd
      exact InvN.advance hi (hn hnd) id

theorem Reach.foldl {cfg : Config} (acts : List Act) : ∀ {l : List Msg} {st : St}, Reach cfg l st →
    Reach cfg (l ++ sent acts) (acts.foldl (Router.step cfg) st) := by
  induction acts with
  | nil => intro l st h; simpa [sent] using h
  | cons a acts ih =>
    intro l st h
    rw [List.foldl_cons, sent_cons, ← List.append_assoc]
    exact ih (h.step a)

theorem reach_run (cfg : Config) (acts : List Act) : Reach cfg (sent acts) (run cfg acts) := by
  have := Reach.foldl (cfg := cfg) acts (Reach.init cfg)
  simpa [run] using this

/-- the last thing every action does is `settle` -/
theorem run_settled (cfg : Config) (acts : List Act) :
    (run cfg acts).workers = [] → (run cfg acts).inbox = [] := by
  unfold run
  suffices h : ∀ (st : St), (st.workers = [] → st.inbox = []) →
      (acts.foldl (Router.step cfg) st).workers = [] → (acts.foldl (Router.step cfg) st).inbox = [] from
    h {} (fun _ => rfl)
  induction acts with
  | nil => intro st h; exact h
  | cons a acts ih =>
    intro st _
    rw [List.foldl_cons]
    apply ih
    cases a <;> exact settle_settled cfg _

/-! ### catching panics changes nothing but replies -/

def Sim (s t : St) : Prop :=
  s.inbox = t.inbox ∧ s.texts = t.texts ∧ s.workers = t.workers ∧ s.dropped = t.dropped

theorem eager_sim (wf : Bool) (fuel : Nat) : ∀ (s t : St), Sim s t →
    Sim (eager ⟨wf, true⟩ fuel s) (eager ⟨wf, false⟩ fuel t) := by
  induction fuel with
  | zero => intro s t h; exact h
  | succ fuel ih =>
    intro s t h
    obtain ⟨inb, tx, wk, ob, dr, dd⟩ := s
    obtain ⟨inb', tx', wk', ob', dr', dd'⟩ := t
    obtain ⟨h1, h2, h3, h4⟩ := h
    simp only at h1 h2 h3 h4
    subst h1 h2 h3 h4
    cases inb with
    | nil => simp [eager, Sim]
    | cons m rest =>
      cases m with
      | req id n o => simp only [eager]; apply ih; simp [Sim]
      | notif n v =>
        simp only [eager]
        split
        · apply ih; simp [Sim]
        · cases wf
          · simp only [Bool.false_eq_true, if_false]; apply ih; simp [Sim]
          · simp [Sim]

theorem advanceWorker_sim (wf : Bool) (id : Nat) (s t : St) (h : Sim s t) :
    Sim (advanceWorker ⟨wf, true⟩ s id) (advanceWorker ⟨wf, false⟩ t id) := by
  obtain ⟨inb, tx, wk, ob, dr, dd⟩ := s
  obtain ⟨inb', tx', wk', ob', dr', dd'⟩ := t
  obtain ⟨h1, h2, h3, h4⟩ := h
  simp only at h1 h2 h3 h4
  subst h1 h2 h3 h4
  unfold advanceWorker
  cases hf : wk.find? (fun w => w.id == id) with
  | none => simp [Sim]
  | some w =>
    simp only []
    rcases hp : w.phase with _ | _ | p
    · cases ho : w.outcome <;> simp [Sim]
    · simp [Sim]
    · simp [Sim]

theorem run_sim (wf : Bool) (acts : List Act) : Sim (run ⟨wf, true⟩ acts) (run ⟨wf, false⟩ acts) := by
  unfold run
  suffices h : ∀ (s t : St), Sim s t →
      Sim (acts.foldl (Router.step ⟨wf, true⟩) s) (acts.foldl (Router.step ⟨wf, false⟩) t) from
    h {} {} ⟨rfl, rfl, rfl, rfl⟩
  induction acts with
  | nil => intro s t h; exact h
  | cons a acts ih =>
    intro s t h
    rw [List.foldl_cons, List.foldl_cons]
    apply ih
    cases a with
    | send m =>
      simp only [Router.step, settle]
      have h' : Sim { s with inbox := s.inbox ++ [m] } { t with inbox := t.inbox ++ [m] } :=
        ⟨by simp [h.1], h.2.1, h.2.2.1, h.2.2.2⟩
      have e : (s.inbox ++ [m]).length = (t.inbox ++ [m]).length := by rw [h.1]
      rw [e]
      exact eager_sim wf _ _ _ h'
    | advance id =>
      simp only [Router.step, settle]
      have h' := advanceWorker_sim wf id s t h
      rw [h'.1]
      exact eager_sim wf _ _ _ h'

/-! ### remaining pause points -/

theorem sum_filter_add_le (g : Worker → Nat) (p : Worker → Bool) (l : List Worker) {w : Worker}
    (hw : w ∈ l) (hp : p w = false) : ((l.filter p).map g).sum + g w ≤ (l.map g).sum := by
  induction l with
  | nil => cases hw
  | cons x l ih =>
    have hle : ((l.filter p).map g).sum ≤ (l.map g).sum := by
      clear ih hw
      induction l with
      | nil => simp
      | cons y l ih => simp only [List.filter_cons]; split <;> simp <;> omega
    rcases List.mem_cons.1 hw with h | h
    · subst h
      simp only [List.filter_cons, hp, List.map_cons, List.sum_cons]
      simp
      omega
    · have := ih h
      simp only [List.filter_cons]
      split <;> simp <;> omega

theorem sum_map_upd_lt (g : Worker → Nat) (u : Worker → Worker) (l : List Worker)
    (hle : ∀ x ∈ l, g (u x) ≤ g x) {w : Worker} (hw : w ∈ l) (hlt : g (u w) < g w) :
    ((l.map u).map g).sum < (l.map g).sum := by
  induction l with
  | nil => cases hw
  | cons x l ih =>
    have hle' : ((l.map u).map g).sum ≤ (l.map g).sum := by
      have hl : ∀ x ∈ l, g (u x) ≤ g x := fun y hy => hle y (List.mem_cons_of_mem _ hy)
      clear ih hw hle
      induction l with
      | nil => simp
      | cons y l ih =>
        have := hl y (List.mem_cons_self ..)
        have := ih (fun z hz => hl z (List.mem_cons_of_mem _ hz))
        simp only [List.map_cons, List.sum_cons]; omega
    have hx := hle x (List.mem_cons_self ..)
    rcases List.mem_cons.1 hw with h | h
    · subst h; simp only [List.map_cons, List.sum_cons]; omega
    · have := ih (fun y hy => hle y (List.mem_cons_of_mem _ hy)) h
      simp only [List.map_cons, List.sum_cons]; omega

end Router
end Iwe
