/- helper lemmas for C14 -/
import IweModel.Model.Uri
import IweModel.Lemmas.Path

namespace Iwe
namespace Uri
open Path

theorem md_toList : ".md".toList = ['.', 'm', 'd'] := by decide

theorem slash_toList : "/".toList = ['/'] := by decide

theorem file_toList : "file://".toList = ['f', 'i', 'l', 'e', ':', '/', '/'] := by decide

/-! ### `trimStartMatches` -/

theorem trimStartMatches_of_not_prefix (b : Str) (fuel : Nat) (s : Str)
    (h : b.isPrefixOf s = false) : trimStartMatches b fuel s = s := by
  cases fuel with
  | zero => rfl
  | succ n => simp [trimStartMatches, h]

/-- one occurrence of a non-empty prefix is stripped, and the loop stops at a remainder that does
not start with the prefix (whatever fuel is left) -/
theorem trimStartMatches_strip_once (b : Str) (fuel : Nat) (rest : Str) (hb : b ≠ [])
    (h : b.isPrefixOf rest = false) : trimStartMatches b (fuel + 1) (b ++ rest) = rest := by
  have hp : b.isPrefixOf (b ++ rest) = true := by
    rw [List.isPrefixOf_iff_prefix]; exact List.prefix_append _ _
  have he : b.isEmpty = false := by cases b with
    | nil => exact absurd rfl hb
    | cons _ _ => rfl
  simp only [trimStartMatches, he, hp, if_true, List.drop_left]
  simpa using trimStartMatches_of_not_prefix b fuel rest h

/-- a string ending in `/` that is not a prefix of `key` is not a prefix of `key ++ ".md"` -/
theorem slash_not_prefix_append_md (p key : Str)
    (h : (p ++ ['/']).isPrefixOf key = false) :
    (p ++ ['/']).isPrefixOf (key ++ ['.', 'm', 'd']) = false := by
  cases hp : (p ++ ['/']).isPrefixOf (key ++ ['.', 'm', 'd']) with
  | false => rfl
  | true =>
    exfalso
    rw [List.isPrefixOf_iff_prefix] at hp
    obtain ⟨t, ht⟩ := hp
    have hnp : ¬ (p ++ ['/']) <+: key := by
      rw [← List.isPrefixOf_iff_prefix, h]; simp
    rcases List.append_eq_append_iff.1 ht with ⟨a, ha, _⟩ | ⟨c, hc, hmd⟩
    · exact hnp ⟨a, ha.symm⟩
    · -- `p ++ "/" = key ++ c`, `c` a prefix of `.md`
      have hlast := congrArg List.getLast? hc
      rcases c with _ | ⟨c1, _ | ⟨c2, _ | ⟨c3, _ | ⟨c4, c⟩⟩⟩⟩
      · apply hnp; rw [hc]; simp
      · simp at hmd hlast; obtain ⟨rfl, _⟩ := hmd; exact absurd hlast (by decide)
      · simp at hmd hlast; obtain ⟨_, rfl, _⟩ := hmd; exact absurd hlast (by decide)
      · simp at hmd hlast; obtain ⟨_, _, rfl, _⟩ := hmd; exact absurd hlast (by decide)
      · simp at hmd

theorem baseOf_eq (bp : Str) : baseOf bp = ("file://".toList ++ bp) ++ ['/'] := rfl

theorem baseOf_ne_nil (bp : Str) : baseOf bp ≠ [] := by
  rw [baseOf_eq]; exact List.append_ne_nil_of_right_ne_nil _ (by simp)

/-! ### `:` does not occur in a safe key -/

theorem mem_intercalate {c : Char} {sep : Str} {L : List Str}
    (h : c ∈ sep.intercalate L) : c ∈ sep ∨ ∃ s ∈ L, c ∈ s := by
  induction L with
  | nil => simp [List.intercalate] at h
  | cons x L ih =>
    cases L with
    | nil =>
      simp [List.intercalate] at h
      exact Or.inr ⟨x, by simp, h⟩
    | cons y L =>
      have e : sep.intercalate (x :: y :: L) = x ++ (sep ++ sep.intercalate (y :: L)) := by
        simp [List.intercalate, List.intersperse]
      rw [e, List.mem_append, List.mem_append] at h
      rcases h with h | h | h
      · exact Or.inr ⟨x, by simp, h⟩
      · exact Or.inl h
      · rcases ih h with h | ⟨s, hs, hc⟩
        · exact Or.inl h
        · exact Or.inr ⟨s, by simp [hs], hc⟩

theorem colon_not_mem_safe_key (comps : List Str)
    (hsafe : ∀ c ∈ comps, safeComponent c = true) :
    ':' ∉ "/".toList.intercalate comps := by
  intro h
  rcases mem_intercalate h with h | ⟨s, hs, hc⟩
  · simp [slash_toList] at h
  · have := hsafe s hs
    simp only [safeComponent, Bool.and_eq_true, List.all_eq_true] at this
    have hcolon := this.1.1.2 ':' hc
    revert hcolon
    decide

theorem baseOf_cons (bp : Str) :
    baseOf bp = 'f' :: 'i' :: 'l' :: 'e' :: ':' :: ('/' :: '/' :: (bp ++ ['/'])) := by
  unfold baseOf
  rw [file_toList]
  rfl

theorem colon_mem_of_base_prefix (bp s : Str) (h : (baseOf bp).isPrefixOf s = true) : ':' ∈ s := by
  rw [baseOf_cons] at h
  rw [List.isPrefixOf_iff_prefix] at h
  obtain ⟨t, rfl⟩ := h
  simp

/-! ### `.md` at the end of a file key -/

theorem endsMd_append_slash (xs stem : Str) :
    endsMd (xs ++ ['/'] ++ stem) = endsMd stem := by
  rw [endsMd_eq, endsMd_eq]
  simp only [List.reverse_append, List.reverse_cons, List.reverse_nil, List.nil_append,
    List.singleton_append]
  exact prefix_append _ _ (Or.inr ⟨_, rfl⟩)

theorem keyOfFile_stem_md (dirs : List Str) (stem : Str) (hstem : endsMd stem = false) :
    keyOfFile dirs (stem ++ ".md".toList)
      = (match dirs with
         | [] => stem
         | _ => "/".toList.intercalate dirs ++ ['/'] ++ stem) := by
  have e : trimMd (stem ++ ".md".toList) = stem := by
    rw [md_toList, trimMd_append_md_core, trimMd_of_not_endsMd _ hstem]
  cases dirs with
  | nil => simp only [keyOfFile, e]
  | cons d ds => simp only [keyOfFile, e]

theorem endsMd_keyOfFile (dirs : List Str) (stem : Str) (hstem : endsMd stem = false) :
    endsMd (keyOfFile dirs (stem ++ ".md".toList)) = false := by
  rw [keyOfFile_stem_md dirs stem hstem]
  cases dirs with
  | nil => exact hstem
  | cons d ds => simp only [endsMd_append_slash, hstem]

/-! ## URL dot-segment removal agrees with `join_normalized` below the library root -/

theorem parent_mem_travStep {st : List Comp} (c : Comp) (h : Comp.parent ∈ st) :
    Comp.parent ∈ travStep st c := by
  cases c with
  | cur => exact h
  | normal n => exact List.mem_cons_of_mem _ h
  | parent =>
    cases st with
    | nil => cases h
    | cons x rest =>
      cases x with
      | parent => exact List.mem_cons_self ..
      | cur =>
        simp only [travStep]
        rcases List.mem_cons.1 h with h | h
        · cases h
        · exact h
      | normal n =>
        simp only [travStep]
        rcases List.mem_cons.1 h with h | h
        · cases h
        · exact h

theorem parent_mem_trav : ∀ (cs : List Comp) {st : List Comp}, Comp.parent ∈ st → Comp.parent ∈ trav st cs
  | [], _, h => h
  | c :: cs, st, h => by
    unfold trav
    rw [List.foldl_cons]
    exact parent_mem_trav cs (parent_mem_travStep c h)

/-- the two resolutions walk in step as long as `..` never climbs above what is on the stack -/
theorem urlTrav_eq (R : List Str) : ∀ (u st : List Comp),
    (∀ c ∈ st, ∃ n, c = Comp.normal n) → Comp.parent ∉ trav st u →
    u.foldl urlStep (st.map compStr ++ R) = (trav st u).map compStr ++ R
  | [], _, _, _ => rfl
  | c :: u, st, hst, hno => by
    have hno' : Comp.parent ∉ trav (travStep st c) u := by
      unfold trav at hno ⊢
      rwa [List.foldl_cons] at hno
    have htrav : trav st (c :: u) = trav (travStep st c) u := by
      unfold trav
      rw [List.foldl_cons]
    rw [List.foldl_cons, htrav]
    cases c with
    | cur => exact urlTrav_eq R u st hst hno'
    | normal n =>
      have := urlTrav_eq R u (Comp.normal n :: st)
        (by intro c hc; rcases List.mem_cons.1 hc with rfl | hc; exact ⟨n, rfl⟩; exact hst c hc) hno'
      simpa [urlStep, travStep, compStr] using this
    | parent =>
      cases st with
      | nil =>
        exact absurd (parent_mem_trav u (st := [Comp.parent]) (List.mem_cons_self ..)) hno'
      | cons x rest =>
        obtain ⟨n, rfl⟩ := hst x (List.mem_cons_self ..)
        have := urlTrav_eq R u rest (fun c hc => hst c (List.mem_cons_of_mem _ hc)) hno'
        simpa [urlStep, travStep, compStr] using this

end Uri
end Iwe
