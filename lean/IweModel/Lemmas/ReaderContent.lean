/-
The reader (`Model/Reader.lean`) keeps the text content of the event stream: on every grammatical stream
(`Spec/Events.lean`) without `Text` inside an HTML block, the flat text of the reader's state grows by exactly
the text of each event (`Spec/Flat.lean`).  Uses the frame-stack ↔ reader-state relation of `ReaderTotal`.
-/
import IweModel.Lemmas.ReaderTotal
import IweModel.Spec.Flat

namespace Iwe
namespace ReaderContent
open Reader Events ReaderTotal

attribute [local simp] String.append_assoc String.append_empty String.empty_append

/-! ### flat text of the pieces the reader builds -/

theorem inls_snoc (xs : List Inline) (i : Inline) : Flat.inls (xs ++ [i]) = Flat.inls xs ++ Flat.inl i := by
  induction xs with
  | nil => simp [Flat.inls]
  | cons x xs ih => simp [Flat.inls, ih]

theorem blocks_snoc (bs : List DBlock) (b : DBlock) : Flat.blocks (bs ++ [b]) = Flat.blocks bs ++ Flat.block b := by
  induction bs with
  | nil => simp [Flat.blocks]
  | cons x xs ih => simp [Flat.blocks, ih]

theorem items_snoc_nil (its : List (List DBlock)) : Flat.items (its ++ [[]]) = Flat.items its := by
  induction its with
  | nil => simp [Flat.items, Flat.blocks]
  | cons x xs ih => simp [Flat.items, ih]

theorem cells_snoc_nil (cs : List Inlines) : Flat.cells (cs ++ [[]]) = Flat.cells cs := by
  induction cs with
  | nil => simp [Flat.cells, Flat.inls]
  | cons x xs ih => simp [Flat.cells, ih]

theorem rows_snoc_nil (rs : List (List Inlines)) : Flat.rows (rs ++ [[]]) = Flat.rows rs := by
  induction rs with
  | nil => simp [Flat.rows, Flat.cells]
  | cons x xs ih => simp [Flat.rows, ih]

theorem close_flat (o : OpenInline) : Flat.inl o.close = Flat.inls o.children := by
  obtain ⟨k, cs, p⟩ := o
  cases k <;> simp [OpenInline.close, Flat.inl]

theorem appendLast_flat : ∀ (cs : List Inlines) (i : Inline) (cs' : List Inlines),
    appendLast cs i = some cs' → Flat.cells cs' = Flat.cells cs ++ Flat.inl i
  | [], _, _, h => by simp [appendLast] at h
  | [l], i, cs', h => by
    simp only [appendLast, Option.some.injEq] at h
    subst h
    simp [Flat.cells, inls_snoc]
  | l :: l2 :: rest, i, cs', h => by
    simp only [appendLast, Option.map_eq_some_iff] at h
    obtain ⟨a, ha, rfl⟩ := h
    simp [Flat.cells, appendLast_flat (l2 :: rest) i a ha]

theorem appendLastRow_flat : ∀ (rs : List (List Inlines)) (i : Inline) (rs' : List (List Inlines)),
    appendLastRow rs i = some rs' → Flat.rows rs' = Flat.rows rs ++ Flat.inl i
  | [], _, _, h => by simp [appendLastRow] at h
  | [r], i, rs', h => by
    simp only [appendLastRow, Option.map_eq_some_iff] at h
    obtain ⟨a, ha, rfl⟩ := h
    simp [Flat.rows, appendLast_flat r i a ha]
  | r :: r2 :: rest, i, rs', h => by
    simp only [appendLastRow, Option.map_eq_some_iff] at h
    obtain ⟨a, ha, rfl⟩ := h
    simp [Flat.rows, appendLastRow_flat (r2 :: rest) i a ha]

theorem pushCell_flat : ∀ rs : List (List Inlines), Flat.rows (pushCell rs) = Flat.rows rs
  | [] => by simp [pushCell]
  | [r] => by simp [pushCell, Flat.rows, cells_snoc_nil]
  | r :: r2 :: rest => by simp [pushCell, Flat.rows, pushCell_flat (r2 :: rest)]

theorem appendToItem_flat (i : Inline) (pos : LineRange) :
    ∀ it : List DBlock, Flat.blocks (appendToItem it i pos) = Flat.blocks it ++ Flat.inl i
  | [] => by simp [appendToItem, Flat.blocks, Flat.block, Flat.inls]
  | [b] => by cases b <;> simp [appendToItem, Flat.blocks, Flat.block, Flat.inls, inls_snoc]
  | b :: b2 :: rest => by simp [appendToItem, Flat.blocks, appendToItem_flat i pos (b2 :: rest)]

theorem appendToItems_flat (i : Inline) (pos : LineRange) :
    ∀ (its its' : List (List DBlock)), appendToItems its i pos = .ok its' →
      Flat.items its' = Flat.items its ++ Flat.inl i
  | [], _, h => by simp [appendToItems] at h
  | [it], its', h => by
    simp only [appendToItems, Except.ok.injEq] at h
    subst h
    simp [Flat.items, appendToItem_flat]
  | it :: it2 :: rest, its', h => by
    simp only [appendToItems] at h
    split at h
    · simp at h
    · rename_i a ha
      simp only [Except.ok.injEq] at h
      subst h
      simp [Flat.items, appendToItems_flat i pos (it2 :: rest) a ha]

theorem pushLastItem_flat (b : DBlock) :
    ∀ (its its' : List (List DBlock)), pushLastItem its b = .ok its' →
      Flat.items its' = Flat.items its ++ Flat.block b
  | [], _, h => by simp [pushLastItem] at h
  | [it], its', h => by
    simp only [pushLastItem, Except.ok.injEq] at h
    subst h
    simp [Flat.items, blocks_snoc]
  | it :: it2 :: rest, its', h => by
    simp only [pushLastItem] at h
    split at h
    · simp at h
    · rename_i a ha
      simp only [Except.ok.injEq] at h
      subst h
      simp [Flat.items, pushLastItem_flat b (it2 :: rest) a ha]

/-! ### flat text of a reader state -/

/-- open blocks, outermost first (the stack's head is the innermost) -/
def stack : List DBlock → String
  | [] => ""
  | b :: rest => stack rest ++ Flat.block b

/-- open inline containers, outermost first -/
def opens : List OpenInline → String
  | [] => ""
  | o :: rest => opens rest ++ Flat.inls o.children

/-- everything the reader holds: finished blocks, then open blocks, then open inlines -/
def state (s : St) : String := Flat.blocks s.blocks ++ (stack s.stack ++ opens s.inlines)

def nextMeta (m : Bool) : Ev → Bool
  | .startMeta => true
  | .endMeta => false
  | _ => m

theorem events_cons (m : Bool) (ev : Ev) (evs : List Ev) :
    Flat.events m (ev :: evs) = Flat.evText m ev ++ Flat.events (nextMeta m ev) evs := by
  cases ev <;> simp [Flat.events, Flat.evText, nextMeta]

/-! ### `metaBlock` is touched by the two front-matter events only -/

theorem emit_mb {st st' : St} {i : Inline} {pos : LineRange} (h : emit st i pos = .ok st') :
    st'.metaBlock = st.metaBlock := by
  unfold emit at h
  split at h
  · split at h
    · simp at h
    · split at h
      · simp at h
      · simp only [Except.ok.injEq] at h
        subst h
        rfl
  · simp only [Except.ok.injEq] at h
    subst h
    rfl

theorem popBlock_mb {st st' : St} (h : popBlock st = .ok st') : st'.metaBlock = st.metaBlock := by
  unfold popBlock at h
  split at h
  · simp at h
  · simp only [Except.ok.injEq] at h
    subst h
    rfl
  · split at h
    · split at h
      · simp at h
      · simp only [Except.ok.injEq] at h
        subst h
        rfl
    · simp only [Except.ok.injEq] at h
      subst h
      rfl

theorem popInline_mb {st st' : St} (h : popInline st = .ok st') : st'.metaBlock = st.metaBlock := by
  unfold popInline at h
  split at h
  · simp at h
  · have := emit_mb h
    simpa using this

/-! ### the two workhorses: closing a block, delivering an inline -/

theorem popBlock_content (st st' : St) (b : DBlock) (rest : List DBlock) (r : List Frame)
    (hs : st.stack = b :: rest) (ha : blockAllowed r = true) (hok : FsOk r = true) (hr : BlockRel r rest)
    (h : popBlock st = .ok st') : state st' = state st := by
  obtain ⟨inl, stk, blocks, mb, md⟩ := st
  simp only at hs
  subst hs
  rcases blockAllowed_cases ha hok with rfl | ⟨r', rfl⟩ | ⟨r', rfl⟩
  · simp only [BlockRel] at hr
    subst hr
    simp only [popBlock, Except.ok.injEq] at h
    subst h
    simp [state, stack, blocks_snoc]
  · obtain ⟨t, rest', rfl, hm, _⟩ := (BlockRel_block rfl).1 hr
    cases t <;> simp [Match] at hm
    rename_i lr bs
    simp only [popBlock, isContainer, appendBlock, if_true, Except.ok.injEq] at h
    subst h
    simp [state, stack, Flat.block, blocks_snoc]
  · have hr2 : BlockRel (.list true :: r') rest := by simpa [BlockRel, isBlock] using hr
    obtain ⟨t, rest', rfl, hm, _⟩ := (BlockRel_block rfl).1 hr2
    cases t <;> simp [Match] at hm
    · rename_i items
      cases hp : pushLastItem items b with
      | error e => simp [popBlock, isContainer, appendBlock, hp] at h
      | ok its' =>
        simp only [popBlock, isContainer, appendBlock, hp, if_true, Except.ok.injEq] at h
        subst h
        simp [state, stack, Flat.block, pushLastItem_flat b items its' hp]
    · rename_i items
      cases hp : pushLastItem items b with
      | error e => simp [popBlock, isContainer, appendBlock, hp] at h
      | ok its' =>
        simp only [popBlock, isContainer, appendBlock, hp, if_true, Except.ok.injEq] at h
        subst h
        simp [state, stack, Flat.block, pushLastItem_flat b items its' hp]

/-- a finished inline adds exactly its text, wherever inline content may stand -/
theorem emit_content {fs : List Frame} {st st' : St} (i : Inline) (pos : LineRange) (hrel : Rel fs st)
    (ha : inlineAllowed fs = true) (h : emit st i pos = .ok st') : state st' = state st ++ Flat.inl i := by
  obtain ⟨hok, hb, hinl, hmb⟩ := hrel
  obtain ⟨inl, stk, blocks, mb, md⟩ := st
  simp only at hb hinl
  cases fs with
  | nil => simp [inlineAllowed] at ha
  | cons f r =>
    cases f <;> simp [inlineAllowed] at ha
    · -- paragraph
      obtain ⟨b, rest, rfl, hm, _⟩ := (BlockRel_block (f := .para) rfl).1 hb
      have hi : inl = [] := List.eq_nil_of_length_eq_zero (by simpa [inlDepth] using hinl)
      subst hi
      cases b <;> simp [Match] at hm
      simp only [emit, top, appendInline, setTop, List.tail_cons, Except.ok.injEq] at h
      subst h
      simp [state, stack, opens, Flat.block, inls_snoc]
    · -- heading
      obtain ⟨b, rest, rfl, hm, _⟩ := (BlockRel_block (f := .heading) rfl).1 hb
      have hi : inl = [] := List.eq_nil_of_length_eq_zero (by simpa [inlDepth] using hinl)
      subst hi
      cases b <;> simp [Match] at hm
      simp only [emit, top, appendInline, setTop, List.tail_cons, Except.ok.injEq] at h
      subst h
      simp [state, stack, opens, Flat.block, inls_snoc]
    · -- table cell
      rename_i c
      cases c <;> simp [inlineAllowed] at ha
      obtain ⟨b, rest, rfl, hm, _⟩ := (BlockRel_block (f := .table true) rfl).1 hb
      have hi : inl = [] := List.eq_nil_of_length_eq_zero (by simpa [inlDepth] using hinl)
      subst hi
      cases b <;> simp [Match] at hm
      rename_i lr hd al rows
      cases rows with
      | nil =>
        obtain ⟨hd', hh⟩ := appendLast_some hd i (by simpa [cellReady] using hm)
        simp only [emit, top, appendInline, hh, setTop, List.tail_cons, Except.ok.injEq] at h
        subst h
        simp [state, stack, opens, Flat.block, Flat.rows, appendLast_flat hd i hd' hh]
      | cons rw rws =>
        obtain ⟨rs', hh⟩ := appendLastRow_some (rw :: rws) i (by simpa [cellReady] using hm)
        simp only [emit, top, appendInline, hh, setTop, List.tail_cons, Except.ok.injEq] at h
        subst h
        simp [state, stack, opens, Flat.block, appendLastRow_flat (rw :: rws) i rs' hh]
    · -- directly in a (tight) list item
      obtain ⟨r', rfl, _⟩ := item_inv hok
      have hb2 : BlockRel (.list true :: r') stk := by simpa [BlockRel, isBlock] using hb
      obtain ⟨b, rest, rfl, hm, _⟩ := (BlockRel_block rfl).1 hb2
      have hi : inl = [] := List.eq_nil_of_length_eq_zero (by simpa [inlDepth] using hinl)
      subst hi
      cases b <;> simp [Match] at hm
      · rename_i items
        cases hp : appendToItems items i pos with
        | error e => simp [emit, top, appendInline, hp] at h
        | ok its' =>
          simp only [emit, top, appendInline, hp, setTop, List.tail_cons, Except.ok.injEq] at h
          subst h
          simp [state, stack, opens, Flat.block, appendToItems_flat i pos items its' hp]
      · rename_i items
        cases hp : appendToItems items i pos with
        | error e => simp [emit, top, appendInline, hp] at h
        | ok its' =>
          simp only [emit, top, appendInline, hp, setTop, List.tail_cons, Except.ok.injEq] at h
          subst h
          simp [state, stack, opens, Flat.block, appendToItems_flat i pos items its' hp]
    · -- inside an open inline container
      cases inl with
      | nil => simp [inlDepth] at hinl
      | cons o rest =>
        simp only [emit, Except.ok.injEq] at h
        subst h
        simp [state, opens, inls_snoc]

/-- where inline content may stand, the innermost open block is not a code block -/
theorem top_not_code : ∀ {fs : List Frame} {stk : List DBlock}, FsOk fs = true →
    inlineAllowed fs = true → BlockRel fs stk → ∀ l lang txt rest, stk ≠ .code l lang txt :: rest
  | [], _, _, ha, _ => by simp [inlineAllowed] at ha
  | f :: r, stk, hok, ha, hb => by
    intro l lang txt rest hs
    subst hs
    cases f <;> simp [inlineAllowed] at ha
    · obtain ⟨b, rest', h, hm, _⟩ := (BlockRel_block (f := .para) rfl).1 hb
      simp only [List.cons.injEq] at h
      obtain ⟨rfl, _⟩ := h
      simp [Match] at hm
    · obtain ⟨b, rest', h, hm, _⟩ := (BlockRel_block (f := .heading) rfl).1 hb
      simp only [List.cons.injEq] at h
      obtain ⟨rfl, _⟩ := h
      simp [Match] at hm
    · rename_i c
      cases c <;> simp [inlineAllowed] at ha
      obtain ⟨b, rest', h, hm, _⟩ := (BlockRel_block (f := .table true) rfl).1 hb
      simp only [List.cons.injEq] at h
      obtain ⟨rfl, _⟩ := h
      simp [Match] at hm
    · obtain ⟨r', rfl, _⟩ := item_inv hok
      have hb2 : BlockRel (.list true :: r') (.code l lang txt :: rest) := by simpa [BlockRel, isBlock] using hb
      obtain ⟨b, rest', h, hm, _⟩ := (BlockRel_block rfl).1 hb2
      simp only [List.cons.injEq] at h
      obtain ⟨rfl, _⟩ := h
      simp [Match] at hm
    · simp only [FsOk, Bool.and_eq_true] at hok
      exact top_not_code hok.2 hok.1 (by simpa [BlockRel, isBlock] using hb) l lang txt rest rfl

local macro "inv_step " h:ident : tactic =>
  `(tactic| (simp only [Events.step] at $h:ident; split at $h:ident <;> simp at $h:ident; subst $h:ident))

/-- one event: the reader's flat text grows by the event's text -/
theorem step_content (content : Position.Bytes) {fs fs' : List Frame} {st st' : St} (ev : Ev)
    (hrel : Rel fs st) (hstep : Events.step fs ev = some fs')
    (hfree : ∀ s e t r, ev = .text s e t → fs ≠ .html :: r)
    (h : Reader.step content st ev = .ok st') :
    state st' = state st ++ Flat.evText st.metaBlock ev ∧ st'.metaBlock = nextMeta st.metaBlock ev := by
  have pushed : ∀ b : DBlock, Flat.block b = "" → state (pushBlock st b) = state st := by
    intro b hb
    simp [state, stack, pushBlock, hb]
  have popped : ∀ {f : Frame} {r : List Frame}, fs = f :: r → isBlock f = true → popBlock st = .ok st' →
      state st' = state st := by
    intro f r hfs hf hp
    subst hfs
    obtain ⟨b, rest, hs, _, hr⟩ := (BlockRel_block hf).1 hrel.blocks
    have hok := hrel.ok
    rw [FsOk_block hf, Bool.and_eq_true] at hok
    exact popBlock_content st st' b rest r hs hok.1 hok.2 hr hp
  cases ev with
  | startPara s e =>
    simp only [Reader.step, Except.ok.injEq] at h; subst h
    exact ⟨by rw [pushed _ (by simp [Flat.block, Flat.inls])]; simp [Flat.evText], rfl⟩
  | startHeading s e l =>
    simp only [Reader.step, Except.ok.injEq] at h; subst h
    exact ⟨by rw [pushed _ (by simp [Flat.block, Flat.inls])]; simp [Flat.evText], rfl⟩
  | startQuote s e =>
    simp only [Reader.step, Except.ok.injEq] at h; subst h
    exact ⟨by rw [pushed _ (by simp [Flat.block, Flat.blocks])]; simp [Flat.evText], rfl⟩
  | startCode s e lang =>
    simp only [Reader.step, Except.ok.injEq] at h; subst h
    exact ⟨by rw [pushed _ (by simp [Flat.block])]; simp [Flat.evText], rfl⟩
  | startTable s e al =>
    simp only [Reader.step, Except.ok.injEq] at h; subst h
    exact ⟨by rw [pushed _ (by simp [Flat.block, Flat.cells, Flat.rows])]; simp [Flat.evText], rfl⟩
  | startList ordered =>
    simp only [Reader.step, Except.ok.injEq] at h; subst h
    exact ⟨by cases ordered <;> (rw [pushed _ (by simp [Flat.block, Flat.items])]; simp [Flat.evText]), rfl⟩
  | startHtml =>
    simp only [Reader.step, Except.ok.injEq] at h; subst h
    exact ⟨by simp [Flat.evText], rfl⟩
  | endHtml =>
    simp only [Reader.step, Except.ok.injEq] at h; subst h
    exact ⟨by simp [Flat.evText], rfl⟩
  | endItem =>
    simp only [Reader.step, Except.ok.injEq] at h; subst h
    exact ⟨by simp [Flat.evText], rfl⟩
  | ignored =>
    simp only [Reader.step, Except.ok.injEq] at h; subst h
    exact ⟨by simp [Flat.evText], rfl⟩
  | rule s e =>
    inv_step hstep; rename_i ha
    simp only [Reader.step] at h
    have := popBlock_content (pushBlock st (.rule (lr content s e))) st' _ _ fs rfl ha hrel.ok hrel.blocks h
    exact ⟨by rw [this, pushed _ (by simp [Flat.block])]; simp [Flat.evText], by rw [popBlock_mb h]; rfl⟩
  | endPara =>
    inv_step hstep; simp only [Reader.step] at h
    exact ⟨by rw [popped rfl rfl h]; simp [Flat.evText], by rw [popBlock_mb h]; rfl⟩
  | endHeading =>
    inv_step hstep; simp only [Reader.step] at h
    exact ⟨by rw [popped rfl rfl h]; simp [Flat.evText], by rw [popBlock_mb h]; rfl⟩
  | endQuote =>
    inv_step hstep; simp only [Reader.step] at h
    exact ⟨by rw [popped rfl rfl h]; simp [Flat.evText], by rw [popBlock_mb h]; rfl⟩
  | endCode =>
    inv_step hstep; simp only [Reader.step] at h
    exact ⟨by rw [popped rfl rfl h]; simp [Flat.evText], by rw [popBlock_mb h]; rfl⟩
  | endTable =>
    inv_step hstep; simp only [Reader.step] at h
    exact ⟨by rw [popped rfl rfl h]; simp [Flat.evText], by rw [popBlock_mb h]; rfl⟩
  | endList =>
    inv_step hstep; simp only [Reader.step] at h
    exact ⟨by rw [popped rfl rfl h]; simp [Flat.evText], by rw [popBlock_mb h]; rfl⟩
  | startMeta =>
    simp only [Reader.step, Except.ok.injEq] at h; subst h
    exact ⟨by simp [state, Flat.evText], rfl⟩
  | endMeta =>
    simp only [Reader.step, Except.ok.injEq] at h; subst h
    exact ⟨by simp [state, Flat.evText], rfl⟩
  | startInline k s e =>
    simp only [Reader.step, Except.ok.injEq] at h; subst h
    exact ⟨by simp [state, opens, Flat.inls, Flat.evText], rfl⟩
  | endInline =>
    inv_step hstep
    obtain ⟨hok, hb, hinl, hmb⟩ := hrel
    obtain ⟨inl, stk, blocks, mb, md⟩ := st
    simp only [FsOk, Bool.and_eq_true] at hok
    cases inl with
    | nil => simp [inlDepth] at hinl
    | cons o rest =>
      rename_i r
      have hrel' : Rel r ⟨rest, stk, blocks, mb, md⟩ :=
        ⟨hok.2, by simpa [BlockRel, isBlock] using hb, by simpa [inlDepth] using hinl,
          by rw [isMeta_of_inlineAllowed hok.1]; simpa [isMeta] using hmb⟩
      simp only [Reader.step, popInline] at h
      have hc := emit_content o.close o.pos hrel' hok.1 h
      refine ⟨?_, by rw [emit_mb h]; rfl⟩
      rw [hc, close_flat]
      simp [state, opens, Flat.evText]
  | code s e t =>
    inv_step hstep; rename_i ha
    simp only [Reader.step] at h
    exact ⟨by rw [emit_content _ _ hrel ha h]; simp [Flat.inl, Flat.evText], by rw [emit_mb h]; rfl⟩
  | math s e t =>
    inv_step hstep; rename_i ha
    simp only [Reader.step] at h
    exact ⟨by rw [emit_content _ _ hrel ha h]; simp [Flat.inl, Flat.evText], by rw [emit_mb h]; rfl⟩
  | inlineHtml s e t =>
    inv_step hstep; rename_i ha
    simp only [Reader.step] at h
    exact ⟨by rw [emit_content _ _ hrel ha h]; simp [Flat.inl, Flat.evText], by rw [emit_mb h]; rfl⟩
  | startItem =>
    inv_step hstep
    obtain ⟨hok, hb, hinl, hmb⟩ := hrel
    obtain ⟨inl, stk, blocks, mb, md⟩ := st
    obtain ⟨blk, rest, rfl, hm, _⟩ := (BlockRel_block rfl).1 hb
    cases blk <;> simp [Match] at hm
    · simp only [Reader.step, top, appendItem, setTop, List.tail_cons, Except.ok.injEq] at h
      subst h
      exact ⟨by simp [state, stack, Flat.block, items_snoc_nil, Flat.evText], rfl⟩
    · simp only [Reader.step, top, appendItem, setTop, List.tail_cons, Except.ok.injEq] at h
      subst h
      exact ⟨by simp [state, stack, Flat.block, items_snoc_nil, Flat.evText], rfl⟩
  | startRow =>
    inv_step hstep
    obtain ⟨hok, hb, hinl, hmb⟩ := hrel
    obtain ⟨inl, stk, blocks, mb, md⟩ := st
    obtain ⟨blk, rest, rfl, hm, _⟩ := (BlockRel_block rfl).1 hb
    cases blk <;> simp [Match] at hm
    simp only [Reader.step, top, appendRow, setTop, List.tail_cons, Except.ok.injEq] at h
    subst h
    exact ⟨by simp [state, stack, Flat.block, rows_snoc_nil, Flat.evText], rfl⟩
  | startCell =>
    inv_step hstep
    obtain ⟨hok, hb, hinl, hmb⟩ := hrel
    obtain ⟨inl, stk, blocks, mb, md⟩ := st
    obtain ⟨blk, rest, rfl, hm, _⟩ := (BlockRel_block rfl).1 hb
    cases blk <;> simp [Match] at hm
    rename_i l hd al rows
    cases rows with
    | nil =>
      simp only [Reader.step, top, appendCell, setTop, List.tail_cons, Except.ok.injEq] at h
      subst h
      exact ⟨by simp [state, stack, Flat.block, cells_snoc_nil, Flat.evText], rfl⟩
    | cons row rows =>
      simp only [Reader.step, top, appendCell, setTop, List.tail_cons, Except.ok.injEq] at h
      subst h
      exact ⟨by simp [state, stack, Flat.block, pushCell_flat, Flat.evText], rfl⟩
  | text s e t =>
    inv_step hstep; rename_i ha
    by_cases hm : st.metaBlock = true
    · simp only [Reader.step, hm, if_true, Except.ok.injEq] at h
      subst h
      exact ⟨by simp [state, Flat.evText, hm], by simp [nextMeta, hm]⟩
    · have hmeta : isMeta fs = false := by
        rw [← hrel.mb]; simpa using hm
      have hmf : st.metaBlock = false := by simpa using hm
      simp only [Reader.step, hm, Bool.false_eq_true, if_false] at h
      split at h
      · simp at h
      · -- inside a code block
        rename_i l lang txt htop
        simp only [Except.ok.injEq] at h
        subst h
        obtain ⟨inl, stk, blocks, mb, md⟩ := st
        cases stk with
        | nil => simp [top] at htop
        | cons b rest =>
          simp only [top, Except.ok.injEq] at htop
          subst htop
          simp only at hmf
          subst hmf
          have hi : inl = [] := by
            rcases textAllowed_cases ha with ⟨r, rfl⟩ | ⟨r, rfl⟩ | ⟨r, rfl⟩ | ⟨r, rfl⟩ | hi
            · exact List.eq_nil_of_length_eq_zero (by simpa [inlDepth] using hrel.inl)
            · simp [isMeta] at hmeta
            · exact absurd rfl (hfree s e t _ rfl)
            · exact absurd rfl (hfree s e t _ rfl)
            · exact absurd rfl (top_not_code hrel.ok hi hrel.blocks l lang txt rest)
          subst hi
          exact ⟨by simp [state, stack, opens, setTop, Flat.block, Flat.evText], rfl⟩
      · rename_i b hnc htop
        have hia : inlineAllowed fs = true := by
          rcases textAllowed_cases ha with ⟨r, rfl⟩ | ⟨r, rfl⟩ | ⟨r, rfl⟩ | ⟨r, rfl⟩ | hi
          · exfalso
            obtain ⟨b', rest, hs, hmt, _⟩ := (BlockRel_block rfl).1 hrel.blocks
            cases b' <;> simp [Match] at hmt
            rename_i l lang txt
            simp only [top, hs, Except.ok.injEq] at htop
            exact hnc l lang txt htop.symm
          · simp [isMeta] at hmeta
          · exact absurd rfl (hfree s e t _ rfl)
          · exact absurd rfl (hfree s e t _ rfl)
          · exact hi
        exact ⟨by rw [emit_content _ _ hrel hia h]; simp [Flat.inl, Flat.evText, hmf],
          by rw [emit_mb h]; rfl⟩

/-- a whole stream -/
theorem run_content (content : Position.Bytes) :
    ∀ (evs : List Ev) {fs fs' : List Frame} {st st' : St}, Rel fs st → Events.run fs evs = some fs' →
      Flat.htmlTextFree fs evs = true → Reader.run content st evs = .ok st' →
      state st' = state st ++ Flat.events st.metaBlock evs
  | [], _, _, st, st', _, _, _, h => by
    simp only [Reader.run, Except.ok.injEq] at h
    subst h
    simp [Flat.events]
  | ev :: evs, fs, fs', st, st', hrel, hrun, hfree, h => by
    simp only [Events.run] at hrun
    split at hrun
    · simp at hrun
    · rename_i fs1 h1
      obtain ⟨st1, hs1, hrel1⟩ := step_pres content ev hrel h1
      simp only [Reader.run, hs1] at h
      simp only [Flat.htmlTextFree, h1, Bool.and_eq_true] at hfree
      have hf : ∀ s e t r, ev = .text s e t → fs ≠ .html :: r := by
        intro s e t r hev hfs
        subst hev hfs
        simp at hfree
      obtain ⟨hc, hmb⟩ := step_content content ev hrel h1 hf hs1
      have ih := run_content content evs hrel1 hrun hfree.2 h
      rw [ih, hc, hmb, events_cons]
      simp

/-! ### the front matter -/

theorem emit_md {st st' : St} {i : Inline} {pos : LineRange} (h : emit st i pos = .ok st') :
    st'.metadata = st.metadata := by
  unfold emit at h
  split at h
  · split at h
    · simp at h
    · split at h
      · simp at h
      · simp only [Except.ok.injEq] at h
        subst h
        rfl
  · simp only [Except.ok.injEq] at h
    subst h
    rfl

theorem popBlock_md {st st' : St} (h : popBlock st = .ok st') : st'.metadata = st.metadata := by
  unfold popBlock at h
  split at h
  · simp at h
  · simp only [Except.ok.injEq] at h
    subst h
    rfl
  · split at h
    · split at h
      · simp at h
      · simp only [Except.ok.injEq] at h
        subst h
        rfl
    · simp only [Except.ok.injEq] at h
      subst h
      rfl

/-- what one event does to the stored front matter -/
def nextMd (m : Bool) (acc : Option String) : Ev → Option String
  | .text _ _ t => if m then some t else acc
  | _ => acc

theorem step_md (content : Position.Bytes) {st st' : St} (ev : Ev) (h : Reader.step content st ev = .ok st') :
    st'.metadata = nextMd st.metaBlock st.metadata ev := by
  have topped : ∀ (f : DBlock → Except Site DBlock),
      (match top st with
       | .error e => .error e
       | .ok b => match f b with
         | .error e => .error e
         | .ok b' => .ok (setTop st b')) = Except.ok st' → st'.metadata = st.metadata := by
    intro f hh
    split at hh
    · simp at hh
    · split at hh
      · simp at hh
      · simp only [Except.ok.injEq] at hh
        subst hh
        rfl
  cases ev with
  | startPara s e | startHeading s e l | startQuote s e | startCode s e lang | startTable s e al | startList o
  | startHtml | endHtml | endItem | ignored | startMeta | endMeta | startInline k s e =>
    simp only [Reader.step, Except.ok.injEq] at h; subst h; rfl
  | endPara | endHeading | endQuote | endCode | endTable | endList =>
    simp only [Reader.step] at h; exact popBlock_md h
  | rule s e =>
    simp only [Reader.step] at h
    have := popBlock_md h
    simpa [pushBlock, nextMd] using this
  | endInline =>
    simp only [Reader.step, popInline] at h
    split at h
    · simp at h
    · have := emit_md h
      simpa [nextMd] using this
  | code s e t | math s e t | inlineHtml s e t =>
    simp only [Reader.step] at h; exact emit_md h
  | startItem => simp only [Reader.step] at h; exact topped appendItem h
  | startRow => simp only [Reader.step] at h; exact topped appendRow h
  | startCell => simp only [Reader.step] at h; exact topped appendCell h
  | text s e t =>
    simp only [Reader.step] at h
    split at h
    · rename_i hm
      simp only [Except.ok.injEq] at h; subst h
      simp [nextMd, hm]
    · rename_i hm
      have hmf : st.metaBlock = false := by simpa using hm
      split at h
      · simp at h
      · simp only [Except.ok.injEq] at h; subst h
        simp [nextMd, hmf, setTop]
      · simp [nextMd, hmf, emit_md h]

theorem metaText_cons (m : Bool) (acc : Option String) (ev : Ev) (evs : List Ev) :
    Flat.metaText m acc (ev :: evs) = Flat.metaText (nextMeta m ev) (nextMd m acc ev) evs := by
  cases ev <;> cases m <;> simp [Flat.metaText, nextMeta, nextMd]

theorem run_md (content : Position.Bytes) :
    ∀ (evs : List Ev) {fs fs' : List Frame} {st st' : St}, Rel fs st → Events.run fs evs = some fs' →
      Flat.htmlTextFree fs evs = true → Reader.run content st evs = .ok st' →
      st'.metadata = Flat.metaText st.metaBlock st.metadata evs
  | [], _, _, st, st', _, _, _, h => by
    simp only [Reader.run, Except.ok.injEq] at h
    subst h
    simp [Flat.metaText]
  | ev :: evs, fs, fs', st, st', hrel, hrun, hfree, h => by
    simp only [Events.run] at hrun
    split at hrun
    · simp at hrun
    · rename_i fs1 h1
      obtain ⟨st1, hs1, hrel1⟩ := step_pres content ev hrel h1
      simp only [Reader.run, hs1] at h
      simp only [Flat.htmlTextFree, h1, Bool.and_eq_true] at hfree
      have hf : ∀ s e t r, ev = .text s e t → fs ≠ .html :: r := by
        intro s e t r hev hfs
        subst hev hfs
        simp at hfree
      obtain ⟨_, hmb⟩ := step_content content ev hrel h1 hf hs1
      have hmd := step_md content ev hs1
      have ih := run_md content evs hrel1 hrun hfree.2 h
      rw [ih, hmb, hmd, metaText_cons]

end ReaderContent
end Iwe
