/-
Data types shared by the model: inlines, reader output (`DocumentBlock`), the abstract tree
(`model/tree.rs` `Tree` / `model/node.rs` `Node`), rendered blocks (`model/graph.rs` `GraphBlock`).
Only constructors that `markdown/reader.rs` can produce are present (DESIGN.md §3.1 lists the
dead arms left out).  `DocumentInline` and `GraphInline` coincide on those constructors
(`to_graph_inline` is a structural copy), so one type `Inline` serves both.
-/
namespace Iwe

inductive LinkType where
  | regular | wiki | wikiPiped
  deriving DecidableEq, Repr, Inhabited

inductive Align where
  | none | left | center | right
  deriving DecidableEq, Repr, Inhabited

inductive Inline where
  | str (s : String)
  | code (s : String)
  | emph (xs : List Inline)
  | strong (xs : List Inline)
  | strikeout (xs : List Inline)
  | link (url : String) (title : String) (t : LinkType) (xs : List Inline)
  | image (url : String) (title : String) (xs : List Inline)
  | math (s : String)
  deriving Repr, Inhabited

abbrev Inlines := List Inline

/-- half-open range of source lines -/
structure LineRange where
  start : Nat
  stop : Nat
  deriving DecidableEq, Repr, Inhabited

/-- reader output (`model/document.rs` `DocumentBlock`) -/
inductive DBlock where
  | para (lr : LineRange) (xs : Inlines)
  | header (lr : LineRange) (level : Nat) (xs : Inlines)
  | code (lr : LineRange) (lang : Option String) (text : String)
  | quote (lr : LineRange) (bs : List DBlock)
  | blist (items : List (List DBlock))
  | olist (items : List (List DBlock))
  | rule (lr : LineRange)
  | table (lr : LineRange) (header : List Inlines) (align : List Align) (rows : List (List Inlines))
  deriving Repr, Inhabited

/-- payload of a tree node (`model/node.rs` `Node`) -/
inductive Node where
  | document (key : String)
  | sect (xs : Inlines)
  | quote
  | blist
  | olist
  | leaf (xs : Inlines)
  | raw (lang : Option String) (content : String)
  | rule
  | ref (key : String) (text : String) (t : LinkType)
  | table (header : List Inlines) (align : List Align) (rows : List (List Inlines))
  deriving Repr, Inhabited

/-- `model/tree.rs` `Tree` -/
inductive Tree where
  | mk (id : Option Nat) (node : Node) (children : List Tree)
  deriving Repr, Inhabited

namespace Tree
def id : Tree → Option Nat | mk i _ _ => i
def node : Tree → Node | mk _ n _ => n
def children : Tree → List Tree | mk _ _ cs => cs
end Tree

/-- rendered blocks (`model/graph.rs` `GraphBlock`) -/
inductive GBlock where
  | plain (xs : Inlines)
  | para (xs : Inlines)
  | code (lang : Option String) (text : String)
  | quote (bs : List GBlock)
  | olist (items : List (List GBlock))
  | blist (items : List (List GBlock))
  | header (level : Nat) (xs : Inlines)
  | rule
  | table (header : List Inlines) (align : List Align) (rows : List (List Inlines))
  deriving Repr, Inhabited

/-- where the real code panics; a model function returning `.error site` means
"the implementation panics at `site` on this input". -/
inductive Site where
  | sectionBlock     -- sections_builder.rs `panic!("section block panic for: …")`
  | headerInBlock    -- sections_builder.rs `panic!("Unexpected block type, headers …")`
  | noKey            -- graph.rs `expect("to have key")`
  | noNode           -- tree.rs `find(id).unwrap()` / `expect("to have node")`
  | emptyStack       -- reader.rs `expect("to have element")`
  | other (what : String)
  | unmodelled (what : String)   -- input outside the modelled fragment (not a panic)
  deriving Repr, Inhabited, DecidableEq

def Node.isSect : Node → Bool | .sect _ => true | _ => false
def Node.isList : Node → Bool | .blist => true | .olist => true | _ => false
def Node.isRef : Node → Bool | .ref _ _ _ => true | _ => false
def Node.isLeaf : Node → Bool | .leaf _ => true | _ => false

end Iwe
