/-
Model of `iwes/src/router.rs` as a small-step machine — C11, C12.
The message loop takes messages in order; every request gets a worker thread holding a clone of
`Arc<Server>`; notifications need `&mut Server`.  A worker goes through the pause points
*started → computed → sent → finished* (the hooks of `cfg(iwe_org_iwe_verif)`); the scheduler
chooses which worker advances and when the client sends its next message.  After each scheduler
action the loop runs as far as it can (`eager`).

Two switches describe the code variants:
* `waitForWorkers` — the D6 repair: a notification waits until no worker holds the `Arc`
  (`false`: `Arc::get_mut(..).unwrap()` panics while a worker is alive, the panic is caught by the
  loop and the notification is dropped);
* `catchPanics` — the D5 repair: a panicking handler still produces one (error) response
  (`false`: the worker thread dies silently).
Server state is abstracted to "version of each note" (a notification carries a fresh version).
-/
namespace Iwe
namespace Router

inductive Outcome where
  | ok | err | panic
  deriving DecidableEq, Repr, Inhabited

inductive Msg where
  | req (id : Nat) (note : Nat) (outcome : Outcome)
  | notif (note : Nat) (ver : Nat)
  deriving DecidableEq, Repr, Inhabited

/-- what a response carries: the version of the note the handler saw, or an error -/
inductive Reply where
  | result (ver : Nat)
  | error
  deriving DecidableEq, Repr, Inhabited

structure Worker where
  id : Nat
  note : Nat
  outcome : Outcome
  /-- 0 = started (before the handler), 1 = computed (before responding), 2 = sent -/
  phase : Nat
  seen : Nat
  deriving DecidableEq, Repr, Inhabited

structure Config where
  waitForWorkers : Bool
  catchPanics : Bool
  deriving DecidableEq, Repr, Inhabited

structure St where
  inbox : List Msg := []
  /-- current version of every note (0 if never changed) -/
  texts : List (Nat × Nat) := []
  workers : List Worker := []
  outbox : List (Nat × Reply) := []
  dropped : List (Nat × Nat) := []
  /-- workers that died without responding -/
  dead : List Nat := []
  deriving Repr, Inhabited

def version (texts : List (Nat × Nat)) (note : Nat) : Nat :=
  match texts.find? (fun p => p.1 == note) with
  | some p => p.2
  | none => 0

def setVersion (texts : List (Nat × Nat)) (note ver : Nat) : List (Nat × Nat) :=
  (note, ver) :: texts.filter (fun p => !(p.1 == note))

/-- the loop consumes messages while it can -/
def eager (cfg : Config) : Nat → St → St
  | 0, st => st
  | fuel + 1, st =>
    match st.inbox with
    | [] => st
    | .req id note oc :: rest =>
      eager cfg fuel { st with inbox := rest, workers := st.workers ++ [⟨id, note, oc, 0, 0⟩] }
    | .notif note ver :: rest =>
      if st.workers.isEmpty then
        eager cfg fuel { st with inbox := rest, texts := setVersion st.texts note ver }
      else if cfg.waitForWorkers then st          -- blocked until the workers are gone
      else eager cfg fuel { st with inbox := rest, dropped := st.dropped ++ [(note, ver)] }

def settle (cfg : Config) (st : St) : St := eager cfg (st.inbox.length + 1) st

inductive Act where
  | send (m : Msg)
  | advance (id : Nat)
  deriving DecidableEq, Repr, Inhabited

/-- one worker moves to its next pause point -/
def advanceWorker (cfg : Config) (st : St) (id : Nat) : St :=
  match st.workers.find? (fun w => w.id == id) with
  | none => st
  | some w =>
    let others := st.workers.filter (fun x => !(x.id == id))
    match w.phase with
    | 0 =>
      -- the handler runs on the current server state
      match w.outcome with
      | .panic =>
        -- the handler panics before the later pause points: with the repair the thread answers with an
        -- error and ends, without it the thread just dies
        if cfg.catchPanics then { st with workers := others, outbox := st.outbox ++ [(id, Reply.error)] }
        else { st with workers := others, dead := st.dead ++ [id] }
      | _ => { st with workers := st.workers.map fun x =>
                if x.id == id then { x with phase := 1, seen := version st.texts w.note } else x }
    | 1 =>
      let reply := match w.outcome with
        | .ok => Reply.result w.seen
        | _ => Reply.error
      { st with outbox := st.outbox ++ [(id, reply)],
                workers := st.workers.map fun x => if x.id == id then { x with phase := 2 } else x }
    | _ => { st with workers := others }

def step (cfg : Config) (st : St) : Act → St
  | .send m => settle cfg { st with inbox := st.inbox ++ [m] }
  | .advance id => settle cfg (advanceWorker cfg st id)

def run (cfg : Config) (acts : List Act) : St := acts.foldl (step cfg) {}

/-- messages sent so far, in order -/
def sent : List Act → List Msg
  | [] => []
  | .send m :: rest => m :: sent rest
  | .advance _ :: rest => sent rest

/-- the server state after applying, in order, every notification of a message list -/
def applyNotifs (texts : List (Nat × Nat)) : List Msg → List (Nat × Nat)
  | [] => texts
  | .notif note ver :: rest => applyNotifs (setVersion texts note ver) rest
  | .req .. :: rest => applyNotifs texts rest

def quiescent (st : St) : Bool := st.inbox.isEmpty && st.workers.isEmpty

def reqIds : List Msg → List Nat
  | [] => []
  | .req id _ _ :: rest => id :: reqIds rest
  | .notif .. :: rest => reqIds rest

/-- the messages sent before request `id` -/
def before (id : Nat) : List Msg → List Msg
  | [] => []
  | .req i n o :: rest => if i == id then [] else .req i n o :: before id rest
  | m :: rest => m :: before id rest

end Router
end Iwe
