/-
Model of the block half of `model/graph.rs`: `GraphBlock::to_markdown`, `is_sparce_list`,
`left_pad_and_prefix(_num)`, `blocks_to_markdown*`.  Tables go through crate
pulldown-cmark-to-cmark and are not modelled (`.error (.unmodelled "table")`).
-/
import IweModel.Model.Project

namespace Iwe
namespace Render

/-- Rust `char::is_whitespace` (Unicode White_Space) -/
def isWs (c : Char) : Bool :=
  let n := c.toNat
  (9 ≤ n && n ≤ 13) || n = 32 || n = 0x85 || n = 0xA0 || n = 0x1680 || (0x2000 ≤ n && n ≤ 0x200A)
  || n = 0x2028 || n = 0x2029 || n = 0x202F || n = 0x205F || n = 0x3000

def trimEndL (cs : List Char) : List Char := (cs.reverse.dropWhile isWs).reverse
/-- Rust `str::trim` -/
def trim (s : String) : String := String.ofList (trimEndL (s.toList.dropWhile isWs))
/-- Rust `str::trim_matches('\n')` -/
def trimNl (s : String) : String :=
  String.ofList ((s.toList.dropWhile (· = '\n')).reverse.dropWhile (· = '\n')).reverse

def stripCr (cs : List Char) : List Char :=
  match cs.reverse with
  | '\r' :: r => r.reverse
  | _ => cs

/-- split at `'\n'` keeping a final (possibly empty) piece -/
def splitNl : List Char → List Char → List (List Char)
  | acc, [] => [acc]
  | acc, c :: cs => if c = '\n' then acc :: splitNl [] cs else splitNl (acc ++ [c]) cs

/-- Rust `str::lines`: split at `\n`, no final empty line, one trailing `\r` removed per line -/
def linesL (cs : List Char) : List (List Char) :=
  let ps := splitNl [] cs
  let ps := if ps.getLast? = some [] then ps.dropLast else ps
  ps.map stripCr

def lines (s : String) : List String := (linesL s.toList).map String.ofList

def rep (c : Char) (n : Nat) : String := String.ofList (List.replicate n c)

/-- `left_pad_and_prefix` on lines -/
def padLines : Nat → List String → List String
  | _, [] => []
  | n, l :: ls =>
    (if l.isEmpty then "\n" else if n = 0 then "- " ++ l ++ "\n" else "  " ++ l ++ "\n") :: padLines (n + 1) ls

def leftPadAndPrefix (text : String) : String := String.join (padLines 0 (lines text))

def numPrefix (num : Nat) : String := toString num ++ "." ++ (if num > 9 then "" else " ")

/-- `left_pad_and_prefix_num` on lines -/
def padLinesNum (pfx : String) : Nat → List String → List String
  | _, [] => []
  | n, l :: ls =>
    (if l.isEmpty then "\n" else if n = 0 then pfx ++ " " ++ l ++ "\n"
      else rep ' ' pfx.length ++ " " ++ l ++ "\n") :: padLinesNum pfx (n + 1) ls

def leftPadAndPrefixNum (text : String) (num : Nat) : String :=
  String.join (padLinesNum (numPrefix num) 0 (lines text))

def isParagraph : GBlock → Bool
  | .plain _ => true
  | .para _ => true
  | _ => false

/-- `is_sparce_list` on the items of a list -/
def isSparse (items : List (List GBlock)) : Bool :=
  items.any fun it => (it.filter isParagraph).length > 1

def codeMd (lang : Option String) (text : String) : String :=
  match lang with
  | some l =>
    if (trim l).isEmpty then "```\n" ++ trimNl text ++ "\n```\n"
    else "``` " ++ l ++ "\n" ++ trimNl text ++ "\n```\n"
  | none => "```\n" ++ trimNl text ++ "\n```\n"

/-- every line of the quoted blocks behind `> `; an empty line becomes `>` (trailing whitespace of a line is content:
code lines ending in spaces) -/
def quoteLines (inner : String) : String :=
  "\n".intercalate ((lines inner).map fun l => if l.isEmpty then ">" else "> " ++ l) ++ "\n"

def joinWith (sep : String) (xs : List String) : String := sep.intercalate xs

/-- characters that crate pulldown-cmark-to-cmark writes unescaped inside a table cell -/
def plainCellChar (c : Char) : Bool := c.isAlphanum || c = ' ' || c.toNat ≥ 128

/-- text of a table cell made of plain words only (anything else is outside the modelled fragment) -/
def cellText : Inlines → Option String
  | [] => some ""
  | .str s :: rest =>
    if s.toList.all plainCellChar then (cellText rest).map (s ++ ·) else none
  | _ => none

/-- the delimiter-row cell for a column (pulldown-cmark-to-cmark `TagEnd::TableHead`) -/
def sepCell (al : Align) (name : String) : String :=
  let minW := match al with
    | .none => 1
    | .left => 2
    | .right => 2
    | .center => 3
  let len := max name.length minW
  String.ofList ((List.range len).map fun c =>
    if (c == 0 && (al == .center || al == .left)) || (c + 1 == len && (al == .center || al == .right))
    then ':' else '-')

def rowMd (cells : List String) : String := String.join (cells.map fun c => "|" ++ c) ++ "|"

def sepRow : List Align → List String → List String
  | a :: as, n :: ns => sepCell a n :: sepRow as ns
  | _, _ => []

/-- `GraphBlock::Table(..).to_markdown` for tables whose cells are plain words -/
def tableMd (header : List Inlines) (al : List Align) (rows : List (List Inlines)) : Option String :=
  match header.mapM cellText, rows.mapM (fun r => r.mapM cellText) with
  | some h, some rs =>
    some (String.join ((rowMd h :: rowMd (sepRow al h) :: rs.map rowMd).map (· ++ "\n")))
  | _, _ => none

/-- the items of an ordered list, numbered from `n` -/
def numbered : Nat → List String → List String
  | _, [] => []
  | n, s :: ss => leftPadAndPrefixNum s n :: numbered (n + 1) ss

mutual
/-- `GraphBlock::to_markdown` -/
def block (ext : String) : GBlock → Except Site String
  | .plain xs => .ok (Inline.toMarkdownL ext xs ++ "\n")
  | .para xs => .ok (Inline.toMarkdownL ext xs ++ "\n")
  | .code l t => .ok (codeMd l t)
  | .quote bs =>
    match blocksL ext bs with
    | .error e => .error e
    | .ok ss => .ok (quoteLines (joinWith "\n" ss))
  | .olist its =>
    match itemsL ext (isSparse its) its with
    | .error e => .error e
    | .ok ss => .ok (joinWith (if isSparse its then "\n" else "") (numbered 1 ss))
  | .blist its =>
    match itemsL ext (isSparse its) its with
    | .error e => .error e
    | .ok ss => .ok (joinWith (if isSparse its then "\n" else "") (ss.map leftPadAndPrefix))
  | .header l xs => .ok (rep '#' l ++ " " ++ Inline.toMarkdownL ext xs ++ "\n")
  | .rule => .ok (rep '-' 72 ++ "\n")
  | .table h al rows =>
    match tableMd h al rows with
    | some s => .ok s
    | none => .error (.unmodelled "table cell with markup")
/-- each block of a list rendered -/
def blocksL (ext : String) : List GBlock → Except Site (List String)
  | [] => .ok []
  | b :: bs =>
    match block ext b with
    | .error e => .error e
    | .ok s =>
      match blocksL ext bs with
      | .error e => .error e
      | .ok ss => .ok (s :: ss)
/-- `blocks_to_markdown_and(item, sparse)` for each item -/
def itemsL (ext : String) (sparse : Bool) : List (List GBlock) → Except Site (List String)
  | [] => .ok []
  | it :: its =>
    match blocksL ext it with
    | .error e => .error e
    | .ok ss =>
      match itemsL ext sparse its with
      | .error e => .error e
      | .ok rest => .ok (joinWith (if sparse then "\n" else "") ss :: rest)
end

/-- `blocks_to_markdown_sparce` -/
def blocksSparse (ext : String) (bs : List GBlock) : Except Site String :=
  match blocksL ext bs with
  | .error e => .error e
  | .ok ss => .ok (joinWith "\n" ss)

/-- `NodeIter::to_markdown(parent, options)` for a tree -/
def treeMarkdown (dir ext : String) (t : Tree) : Except Site String :=
  blocksSparse ext (Project.project dir t)

/-- `Graph::to_markdown` front-matter wrapper -/
def withMeta (md : Option String) (body : String) : String :=
  match md with
  | some m => "---\n" ++ m ++ "---\n\n" ++ body
  | none => body

end Render
end Iwe
