/-
Model of `crates/liwe/src/model.rs` (`Key::{parent, from_file_name, from_rel_link_url,
to_rel_link_url, to_path}`, `is_ref_url`) and of the functions of crate `relative-path`
1.9.3 they call (`components`, `push`/`join`, `join_normalized`/`relative_traversal`,
`relative`, `parent`).  Strings are `List Char` so that proofs can do induction on them.
Core Lean only (this file is linked into the `iwe_model` driver executable).
-/
namespace Iwe.Path

abbrev Str := List Char

inductive Comp where
  | cur
  | parent
  | normal (s : Str)
  deriving DecidableEq, Repr, Inhabited

/-- `pieces acc s`: split `s` at `'/'`, dropping empty pieces; `acc` is the piece read so far. -/
def pieces : Str → Str → List Str
  | acc, [] => if acc = [] then [] else [acc]
  | acc, c :: cs =>
    if c = '/' then (if acc = [] then pieces [] cs else acc :: pieces [] cs)
    else pieces (acc ++ [c]) cs

def classify (s : Str) : Comp :=
  if s = ['.'] then .cur else if s = ['.', '.'] then .parent else .normal s

/-- `RelativePath::components` -/
def comps (s : Str) : List Comp := (pieces [] s).map classify

def compStr : Comp → Str
  | .cur => ['.']
  | .parent => ['.', '.']
  | .normal s => s

/-- what repeated `RelativePathBuf::push(component)` builds, starting from the empty buffer -/
def render : List Comp → Str
  | [] => []
  | [c] => compStr c
  | c :: cs => compStr c ++ '/' :: render cs

/-- one step of `relative_traversal`; the buffer is kept reversed (head = last component). -/
def travStep (st : List Comp) : Comp → List Comp
  | .cur => st
  | .parent =>
    match st with
    | [] => [.parent]
    | .parent :: _ => .parent :: st
    | _ :: rest => rest
  | .normal n => .normal n :: st

def trav (st : List Comp) (cs : List Comp) : List Comp := cs.foldl travStep st

/-- `RelativePath::normalize` -/
def normalize (cs : List Comp) : List Comp := (trav [] cs).reverse

/-- `RelativePath::join_normalized` -/
def joinNormalized (a b : List Comp) : List Comp := (trav (trav [] a) b).reverse

def stripCommon : List Comp → List Comp → List Comp × List Comp
  | f :: fs, t :: ts => if f = t then stripCommon fs ts else (f :: fs, t :: ts)
  | fs, ts => (fs, ts)

/-- `from.relative(to)` -/
def relative (frm to : List Comp) : List Comp :=
  match stripCommon (normalize frm) (normalize to) with
  | (.parent :: _, _) => []
  | (f, t) => f.map (fun _ => Comp.parent) ++ t

/-- `str::trim_end_matches(".md")`, on the reversed string. -/
def trimMdRev : Str → Str
  | 'd' :: 'm' :: '.' :: rest => trimMdRev rest
  | s => s

def trimMd (s : Str) : Str := (trimMdRev s.reverse).reverse

def endsMd (s : Str) : Bool := ['.', 'm', 'd'].isSuffixOf s

/-- `Key::from_file_name` -/
def fromFileName (name : Str) : Str := trimMd name

/-- `Key::to_path` -/
def toPath (key : Str) : Str := key ++ ['.', 'm', 'd']

/-- `RelativePathBuf::push` on strings (used by `join`). -/
def pushStr (buf other : Str) : Str :=
  let other := match other with | '/' :: r => r | o => o
  let buf := if buf ≠ [] ∧ buf.getLast? ≠ some '/' then buf ++ ['/'] else buf
  buf ++ other

/-- `Key::from_rel_link_url(url, relative_to)` (with `join_normalized`, i.e. after the D1 repair). -/
def fromRelLinkUrl (url relativeTo : Str) : Str :=
  render (joinNormalized (comps relativeTo) (comps (trimMd url)))

/-- the pre-repair body: `RelativePath::new(relative_to).join(key)` -/
def fromRelLinkUrlJoin (url relativeTo : Str) : Str :=
  pushStr relativeTo (trimMd url)

/-- `RelativePath::file_name`: the last component that is not `.`, when it is a normal one -/
def fileNameRev : List Comp → Option Str
  | [] => none
  | .cur :: rest => fileNameRev rest
  | .normal n :: _ => some n
  | .parent :: _ => none

def fileName (s : Str) : Option Str := fileNameRev (comps s).reverse

/-- the body of `Key::to_rel_link_url` before repair D34: the bare relative path (empty when the
key is the linking directory itself) -/
def toRelLinkUrlBare (key relativeTo : Str) : Str :=
  render (relative (comps relativeTo) (comps key))

/-- `Key::to_rel_link_url(&self, relative_to)` (after repair D34: a note named like the linking
note's directory is written `../name`, never as an empty url) -/
def toRelLinkUrl (key relativeTo : Str) : Str :=
  let url := toRelLinkUrlBare key relativeTo
  if url = [] then
    match fileName key with
    | some name => '.' :: '.' :: '/' :: name
    | none => url
  else url

/-- `RelativePath::parent` on the reversed string: drop trailing separators, drop the last
piece; repeat while that piece was `.`.  Fuel = length suffices (each round consumes ≥ 1 char). -/
def parentRev : Nat → Str → Str
  | 0, _ => []
  | fuel + 1, r =>
    let r := r.dropWhile (· = '/')
    if r = [] then [] else
    let slice := r.takeWhile (· ≠ '/')
    let rest := (r.dropWhile (· ≠ '/')).dropWhile (· = '/')
    if slice = ['.'] then parentRev fuel rest else rest

/-- `Key::parent` (`""` when the path has no parent). -/
def parent (key : Str) : Str :=
  if key = [] then [] else (parentRev (key.length + 1) key.reverse).reverse

def lower (c : Char) : Char := if 'A' ≤ c ∧ c ≤ 'Z' then Char.ofNat (c.toNat + 32) else c

/-- `is_ref_url`: not starting (case-insensitively, ASCII) with `http://`, `https://`, `mailto:`.
Rust's `to_lowercase` is full Unicode; the three prefixes are ASCII, and the only non-ASCII
characters lower-casing to ASCII letters (`K` KELVIN SIGN → `k`, `İ` → `i̇`) cannot complete one of
these prefixes — they contain neither `k` nor a dotless match; recorded in the trusted base. -/
def isRefUrl (url : Str) : Bool :=
  let l := url.map lower
  !("http://".toList.isPrefixOf l || "https://".toList.isPrefixOf l || "mailto:".toList.isPrefixOf l)

end Iwe.Path
