/-
Model of the position arithmetic of `markdown/reader.rs` (`line_starts`, `to_inline_range`,
`to_line_range`), `model/document.rs` (`link_at_position`, `key_range`) — C13.
Text is a list of bytes (`Nat` < 256): the real code counts bytes, the LSP counts UTF-16 code units.
-/
namespace Iwe
namespace Position

abbrev Bytes := List Nat

/-- lengths (in bytes, terminator excluded) of the lines as Rust's `str::lines` sees them: split at
`\n`, a trailing `\r` of each line removed, no final empty line -/
def lineLens : Bytes → Nat → List Nat
  | [], acc => if acc = 0 then [] else [acc]
  | 10 :: rest, acc => acc :: lineLens rest 0
  | 13 :: 10 :: rest, acc => acc :: lineLens rest 0
  | _ :: rest, acc => lineLens rest (acc + 1)

/-- `line_starts`: 0, then the running sum of (line length + 1) -/
def lineStarts (content : Bytes) : List Nat :=
  let rec go : List Nat → Nat → List Nat
    | [], _ => []
    | l :: ls, s => (s + l + 1) :: go ls (s + l + 1)
  0 :: go (lineLens content 0) 0

structure Pos where
  line : Nat
  character : Nat
  deriving DecidableEq, Repr, Inhabited

/-- the last line start ≤ `off` and the distance to it (the loop of `to_inline_range`) -/
def locate (starts : List Nat) (off : Nat) : Pos :=
  let rec go : List Nat → Nat → Pos → Pos
    | [], _, best => best
    | s :: ss, i, best => go ss (i + 1) (if s ≤ off then ⟨i, off - s⟩ else best)
  go starts 0 ⟨0, 0⟩

/-- `to_inline_range` -/
def toInlineRange (content : Bytes) (start stop : Nat) : Pos × Pos :=
  (locate (lineStarts content) start, locate (lineStarts content) stop)

/-- `to_line_range`: half-open range of lines; never empty -/
def toLineRange (content : Bytes) (start stop : Nat) : Nat × Nat :=
  let s := (locate (lineStarts content) start).line
  let e := (locate (lineStarts content) stop).line
  (s, if s = e then e + 1 else e)

def posLt (a b : Pos) : Bool := a.line < b.line || (a.line == b.line && a.character < b.character)
def posLe (a b : Pos) : Bool := !posLt b a

/-- `Range<Position>::contains` as used by `link_at_position` -/
def inRange (r : Pos × Pos) (p : Pos) : Bool := posLe r.1 p && posLt p r.2

/-- `key_range` of a regular link: after `[text](`, before `)` (byte length of the plain text) -/
def keyRange (r : Pos × Pos) (textLen : Nat) : Pos × Pos :=
  (⟨r.1.line, r.1.character + textLen + 3⟩, ⟨r.2.line, r.2.character - 1⟩)

/-! ### the specification: LSP positions -/

/-- is this byte the first byte of a UTF-8 sequence, and how many UTF-16 units does the character take -/
def utf16Units (b : Nat) : Nat :=
  if b < 0x80 then 1            -- ASCII
  else if b < 0xC0 then 0       -- continuation byte
  else if b < 0xF0 then 1       -- 2- and 3-byte sequences: one unit
  else 2                        -- 4-byte sequence: a surrogate pair

/-- LSP position of byte offset `off`: lines end at `\n` (a preceding `\r` belongs to the
terminator), characters are UTF-16 code units since the line start -/
def lspPos : Bytes → Nat → Pos → Pos
  | _, 0, p => p
  | [], _, p => p
  | 10 :: rest, off + 1, p => lspPos rest off ⟨p.line + 1, 0⟩
  | b :: rest, off + 1, p => lspPos rest off ⟨p.line, p.character + utf16Units b⟩

def specPos (content : Bytes) (off : Nat) : Pos := lspPos content off ⟨0, 0⟩

def isAscii (content : Bytes) : Bool := content.all (· < 0x80)
def noCr (content : Bytes) : Bool := content.all (· != 13)

end Position
end Iwe
