/-
Model of `graph/arena.rs`, `graph/graph_node.rs` and the pointer navigation of `model/node.rs`.

Node ids: the real builder allocates `new id = arena length` in document pre-order and never
reuses an id, so a forest is laid out by the closed form `layout`: a node sits at `base`, its
children start at `base + 1`, its next sibling at `base + size`.  Line ids are not modelled: a
node carries its inlines directly (the dumps compared by the correspondence run print line
*text*).
-/
import IweModel.Model.Sections

namespace Iwe

/-- `GraphNode`: all non-document kinds share one constructor; `payload` is never `.document`. -/
inductive GNode where
  | empty
  | document (id : Nat) (child : Option Nat) (key : String)
  | node (id prev : Nat) (next child : Option Nat) (payload : Node)
  deriving Repr, Inhabited

namespace GNode
def isEmpty : GNode → Bool | empty => true | _ => false
def prev? : GNode → Option Nat | node _ p _ _ _ => some p | _ => none
def next? : GNode → Option Nat | node _ _ n _ _ => n | _ => none
def child? : GNode → Option Nat | node _ _ _ c _ => c | document _ c _ => c | _ => none
def key? : GNode → Option String | document _ _ k => some k | _ => none
def isDocument : GNode → Bool | document .. => true | _ => false
def payload? : GNode → Option Node | node _ _ _ _ p => some p | document _ _ k => some (.document k) | _ => none
end GNode

namespace Arena

mutual
def size : BTree → Nat
  | .mk _ _ cs => 1 + sizes cs
def sizes : List BTree → Nat
  | [] => 0
  | t :: ts => size t + sizes ts
end

mutual
/-- lay one tree out at `base`; `prev` is its parent (first child) or previous sibling; `hasNext`
says whether a sibling follows (it then sits at `base + size t`). -/
def layoutTree (base prev : Nat) (hasNext : Bool) : BTree → List GNode
  | .mk n _ cs =>
    GNode.node base prev (if hasNext then some (base + (1 + sizes cs)) else none)
      (match cs with | [] => none | _ :: _ => some (base + 1)) n
    :: layoutForest (base + 1) base cs
/-- lay a sibling list out from `base`; `prev` = parent for the first, the previous sibling after. -/
def layoutForest (base prev : Nat) : List BTree → List GNode
  | [] => []
  | t :: ts => layoutTree base prev (!ts.isEmpty) t ++ layoutForest (base + size t) base ts
end

/-- the arena segment of one note: the `Document` node at `base`, then its forest -/
def layoutDoc (base : Nat) (key : String) (f : List BTree) : List GNode :=
  GNode.document base (match f with | [] => none | _ :: _ => some (base + 1)) key
    :: layoutForest (base + 1) base f

mutual
/-- the `nodes_map` of a note: (node id, line range) in creation (= pre-) order -/
def rangesTree (base : Nat) : BTree → List (Nat × LineRange)
  | .mk _ lr cs => (match lr with | some r => [(base, r)] | none => []) ++ rangesForest (base + 1) cs
def rangesForest (base : Nat) : List BTree → List (Nat × LineRange)
  | [] => []
  | t :: ts => rangesTree base t ++ rangesForest (base + size t) ts
end

def get (a : List GNode) (id : Nat) : GNode := a.getD id .empty

/-- `Arena::delete_branch`: blank the node, its child branch and its next-sibling chain.
Fuel bounds the pointer walk (the real code recurses; `fuel = arena length` suffices on a
well-formed arena because every visited id is distinct). -/
def deleteBranch : Nat → List GNode → Nat → List GNode
  | 0, a, _ => a
  | fuel + 1, a, id =>
    let n := get a id
    let a := match n.child? with | some c => deleteBranch fuel a c | none => a
    let a := match n.next? with | some c => deleteBranch fuel a c | none => a
    a.set id .empty

mutual
/-- `Tree::from_pointer`: read a tree back from the arena by walking `child` / `next` pointers.
`title` is the title cache used by `GraphNodePointer::node` to refresh reference texts. -/
def collectTree (a : List GNode) (norm : Node → Node) : Nat → Nat → Option Tree
  | 0, _ => none
  | fuel + 1, id =>
    match get a id with
    | .empty => none
    | n =>
      match n.payload? with
      | none => none
      | some p =>
        some (Tree.mk (some id) (norm p)
          (match n.child? with | some c => collectSiblings a norm fuel c | none => []))
/-- the sibling chain starting at `id` (nodes that read back as `none` are skipped, as `flatten` does) -/
def collectSiblings (a : List GNode) (norm : Node → Node) : Nat → Nat → List Tree
  | 0, _ => []
  | fuel + 1, id =>
    let rest := match (get a id).next? with | some nx => collectSiblings a norm fuel nx | none => []
    match collectTree a norm fuel id with
    | some t => t :: rest
    | none => rest
end

/-- `NodePointer::to_parent`: follow `prev` until a node whose `child` is where we came from. -/
def toParent (a : List GNode) : Nat → Nat → Option Nat
  | 0, _ => none
  | fuel + 1, id =>
    match (get a id).prev? with
    | none => none
    | some p => if (get a p).child? = some id then some p else toParent a fuel p

/-- `NodePointer::to_document` / `Graph::node_key`: follow `prev` up to the `Document` node. -/
def toDocument (a : List GNode) : Nat → Nat → Option Nat
  | 0, _ => none
  | fuel + 1, id =>
    match get a id with
    | .document .. => some id
    | n => match n.prev? with | some p => toDocument a fuel p | none => none

/-- `NodePointer::is_in_list` -/
def isInList (a : List GNode) : Nat → Nat → Bool
  | 0, _ => false
  | fuel + 1, id =>
    match get a id with
    | .node _ _ _ _ .blist => true
    | .node _ _ _ _ .olist => true
    | .document .. => false
    | _ => match toParent a (fuel + 1) id with | some p => isInList a fuel p | none => false

/-- `NodePointer::get_all_sub_nodes`: the node, its child branch, its next-sibling chain (pre-order) -/
def allSubNodes (a : List GNode) : Nat → Nat → List Nat
  | 0, _ => []
  | fuel + 1, id =>
    let n := get a id
    id :: ((match n.child? with | some c => allSubNodes a fuel c | none => [])
      ++ (match n.next? with | some c => allSubNodes a fuel c | none => []))

end Arena
end Iwe
