/-
Inline-level functions: `DocumentInline::to_plain_text` / `GraphInline::plain_text`,
`ref_keys`, `normalize`, `change_key`, `is_ref`, `to_markdown` (model/document.rs, model/graph.rs).
-/
import IweModel.Model.Doc
import IweModel.Model.Path

namespace Iwe

def isRefUrl (url : String) : Bool := Path.isRefUrl url.toList
def keyFromFileName (s : String) : String := String.ofList (Path.fromFileName s.toList)
def keyFromRel (url relTo : String) : String := String.ofList (Path.fromRelLinkUrl url.toList relTo.toList)
def keyToRel (key relTo : String) : String := String.ofList (Path.toRelLinkUrl key.toList relTo.toList)
def keyParent (key : String) : String := String.ofList (Path.parent key.toList)

namespace Inline

mutual
/-- `to_plain_text`: text of `Str`/`Code`, recursively through wrappers, links and images; `""` for math. -/
def plainText : Inline → String
  | .str s => s
  | .code s => s
  | .emph xs => plainTexts xs
  | .strong xs => plainTexts xs
  | .strikeout xs => plainTexts xs
  | .link _ _ _ xs => plainTexts xs
  | .image _ _ xs => plainTexts xs
  | .math _ => ""
def plainTexts : List Inline → String
  | [] => ""
  | x :: xs => plainText x ++ plainTexts xs
end

def isRef : Inline → Bool
  | .link url _ _ _ => isRefUrl url
  | _ => false

mutual
/-- `GraphInline::ref_keys`: keys of links *as written* (`Key::from_file_name(url)`, i.e. relative
to the library root — defect D12), looking through emphasis wrappers and image alt text.
Note: every `Link` contributes, external ones too (`ref_key` does not test `is_ref`). -/
def refKeys : Inline → List String
  | .emph xs => refKeysL xs
  | .strong xs => refKeysL xs
  | .strikeout xs => refKeysL xs
  | .link url _ _ _ => [keyFromFileName url]
  | .image _ _ xs => refKeysL xs
  | _ => []
def refKeysL : List Inline → List String
  | [] => []
  | x :: xs => refKeys x ++ refKeysL xs
end

mutual
/-- `GraphInline::normalize`: refresh the text of regular reference links from the title cache. -/
def normalize (title : String → Option String) : Inline → Inline
  | .emph xs => .emph (normalizeL title xs)
  | .strong xs => .strong (normalizeL title xs)
  | .strikeout xs => .strikeout (normalizeL title xs)
  | .link url t ty xs =>
    if isRefUrl url then
      match ty with
      | .regular =>
        match title (keyFromFileName url) with
        | some tt => .link url t ty [.str tt]
        | none => .link url t ty xs
      | .wiki => .link url t ty []
      | .wikiPiped => .link url t ty xs
    else .link url t ty xs
  | other => other
def normalizeL (title : String → Option String) : List Inline → List Inline
  | [] => []
  | x :: xs => normalize title x :: normalizeL title xs
end

mutual
/-- `GraphInline::change_key` -/
def changeKey (target updated : String) : Inline → Inline
  | .emph xs => .emph (changeKeyL target updated xs)
  | .strong xs => .strong (changeKeyL target updated xs)
  | .strikeout xs => .strikeout (changeKeyL target updated xs)
  | .link url t ty xs =>
    if isRefUrl url && keyFromFileName url == target then .link updated t ty [] else .link url t ty xs
  | other => other
def changeKeyL (target updated : String) : List Inline → List Inline
  | [] => []
  | x :: xs => changeKey target updated x :: changeKeyL target updated xs
end

def asciiLower (s : String) : String := s.map fun c => if 'A' ≤ c ∧ c ≤ 'Z' then Char.ofNat (c.toNat + 32) else c

mutual
/-- `GraphInline::to_markdown` with `options.refs_extension = ext` -/
def toMarkdown (ext : String) : Inline → String
  | .str s => s
  | .emph xs => "*" ++ toMarkdownL ext xs ++ "*"
  | .strong xs => "**" ++ toMarkdownL ext xs ++ "**"
  | .strikeout xs => "~~" ++ toMarkdownL ext xs ++ "~~"
  | .code s => "`" ++ s ++ "`"
  | .link url _ ty xs =>
    let text := toMarkdownL ext xs
    match ty with
    | .wikiPiped => "[[" ++ url ++ "|" ++ text ++ "]]"
    | .wiki => "[[" ++ url ++ "]]"
    | .regular =>
      if !isRefUrl url && asciiLower text == asciiLower url then "<" ++ url ++ ">"
      else if isRefUrl url then "[" ++ text ++ "](" ++ keyFromFileName url ++ ext ++ ")"
      else "[" ++ text ++ "](" ++ url ++ ")"
  | .image url _ xs => "![" ++ toMarkdownL ext xs ++ "](" ++ url ++ ")"
  | .math s => "$" ++ s ++ "$"
def toMarkdownL (ext : String) : List Inline → String
  | [] => ""
  | x :: xs => toMarkdown ext x ++ toMarkdownL ext xs
end

end Inline
end Iwe
