/-
Model of the symbol handlers of `iwes/src/router/server.rs` (`handle_workspace_symbols`,
`handle_document_symbols`, `path_to_symbol`, `render_path`) and of `NodePath::{nested_render,
to_nested_symbol}` in `server/extensions.rs` over the graph and outline-path model — C18 (names,
selection, order) and C13 (lines).  A symbol is its name, its kind (`NAMESPACE` for a one-heading
path of the workspace listing, `OBJECT` otherwise), the key of the note its location addresses and
the line of the location (the range is that line, column 0, to the next line, column 0).
-/
import IweModel.Model.Paths

namespace Iwe
namespace Symbols

structure Symbol where
  name : String
  namespaceKind : Bool
  key : String
  line : Nat
  deriving Repr, Inhabited, BEq, DecidableEq

/-- the trimmed heading text of a node (`get_text(id).trim()`) -/
def headingText (g : Graph) (id : Nat) : String := Render.trim (Paths.nodeText g id)

/-- `render_path`: the heading texts of the chain joined by a bullet -/
def renderPath (g : Graph) (p : List Nat) : String :=
  " • ".intercalate (p.map (headingText g))

/-- `path_to_symbol` -/
def pathToSymbol (g : Graph) (sp : Paths.SearchPath) : Symbol :=
  { name := renderPath g sp.path, namespaceKind := sp.root, key := sp.key, line := sp.line }

/-- `handle_workspace_symbols`: one symbol per search result, results without a name left out;
`results` is what `Database::global_search` returned -/
def workspaceSymbols (g : Graph) (results : List Paths.SearchPath) : List Symbol :=
  (results.map (pathToSymbol g)).filter fun s => s.name != ""

/-- the indentation unit of `nested_render`: two EM SPACE characters (U+2003) -/
def indentUnit : String := "\u2003\u2003"

/-- `NodePath::nested_render`: two em spaces per ancestor on the path, then the last heading's text -/
def nestedRender (g : Graph) (p : List Nat) : String :=
  String.join (List.replicate (p.length - 1) indentUnit) ++ headingText g (p.getLast?.getD 0)

/-- `NodePath::to_nested_symbol` -/
def nestedSymbol (g : Graph) (p : List Nat) : Symbol :=
  let target := p.getLast?.getD 0
  { name := nestedRender g p, namespaceKind := false, key := (g.nodeKey target).getD "",
    line := ((g.nodeLineRange target).map (·.start)).getD 0 }

/-- the comparator of `handle_document_symbols`: at the first position where the id vectors differ
the larger id comes first; when one is a prefix of the other the longer comes first.  `true` means
"`a` strictly before `b`". -/
def docBefore : List Nat → List Nat → Bool
  | a :: as, b :: bs => if a == b then docBefore as bs else b < a
  | as, bs => bs.length < as.length

/-- `handle_document_symbols`: the outline paths through the note's first block (or its document
node), of at least two headings, in the handler's order, without their first heading, at most three
headings deep, as nested symbols; symbols without a name left out.  A note the graph does not
hold, or one without blocks, has no symbols. -/
def documentSymbolsOf (g : Graph) (paths : List (List Nat)) (key : String) : List Symbol :=
  match assocGet g.keys key with
  | none => []
  | some doc =>
    match (g.node doc).child? with
    | none => []
    | some first =>
      let ps := paths.filter fun p => p.contains first || p.contains doc
      let ps := ps.filter fun p => p.length > 1
      let ps := Paths.sortStable docBefore ps
      let ps := ps.map fun p => p.drop 1
      let ps := ps.filter fun p => p.length < 4
      (ps.map (nestedSymbol g)).filter fun s => s.name != ""

def documentSymbols (g : Graph) (key : String) : List Symbol :=
  documentSymbolsOf g (Paths.graphToPaths g) key

end Symbols
end Iwe
