/-
Model of what `iwe paths --depth d` and `iwe contents` print (`crates/iwe/src/main.rs`:
`paths_command`, `contents_command`, `render`, `render_block_reference`) over the graph and
outline-path model — C18.  The output is a list of lines; `sorted().unique()` on Rust strings is
the byte-wise lexicographic order, which for UTF-8 is the order of the code points, i.e. Lean's
`String` order.
-/
import IweModel.Model.Symbols

namespace Iwe
namespace Cli

/-- adjacent duplicates removed; on a sorted list this is Itertools' `unique()` -/
def dedupAdj : List String → List String
  | [] => []
  | [x] => [x]
  | x :: y :: rest => if x == y then dedupAdj (y :: rest) else x :: dedupAdj (y :: rest)

/-- `.sorted().unique()` -/
def sortUnique (xs : List String) : List String :=
  dedupAdj (Graph.sortBy (fun a b => a < b) xs)

/-- `iwe paths --depth d`: the outline paths of at most `d` headings, rendered with ` • `, sorted,
each once -/
def pathsOutput (g : Graph) (depth : Nat) : List String :=
  sortUnique (((Paths.graphToPaths g).filter fun p => p.length ≤ depth).map (Symbols.renderPath g))

/-- `render_block_reference`: `[title](key)`, the title empty when the note has none -/
def blockReference (g : Graph) (key : String) : String :=
  "[" ++ (g.title key).getD "" ++ "](" ++ key ++ ")"

/-- `iwe contents` (without the blank lines between the entries): the heading line, then one
reference per note that holds a one-heading outline path, sorted, each once -/
def contentsOutput (g : Graph) : List String :=
  "# Contents" :: sortUnique (((Paths.graphToPaths g).filter fun p => p.length ≤ 1).map fun p =>
    blockReference g ((g.nodeKey (p.head?.getD 0)).getD ""))

end Cli
end Iwe
