/-
Executable well-formedness check of an arena (C20): the live nodes are exactly the disjoint
closed-form segments of the notes in `keys`.  Only the pointer structure is examined
(`Shape` erases payloads), so the same check runs on the model's arena and on a dump of the
implementation's arena.
-/
import IweModel.Model.Graph

namespace Iwe

structure Shape where
  tag : Nat            -- 0 empty, 1 document, 2 other
  id : Nat
  prev : Nat
  next : Option Nat
  child : Option Nat
  deriving DecidableEq, Repr, Inhabited

namespace Wf

def shape : GNode → Shape
  | .empty => ⟨0, 0, 0, none, none⟩
  | .document id c _ => ⟨1, id, 0, none, c⟩
  | .node id p n c _ => ⟨2, id, p, n, c⟩

mutual
def erase : Tree → BTree
  | .mk _ _ cs => .mk .rule none (eraseL cs)
def eraseL : List Tree → List BTree
  | [] => []
  | t :: ts => erase t :: eraseL ts
end

/-- the forest read back from the pointers below the document node at `r`, payloads erased -/
def readForest (a : List GNode) (r : Nat) : List BTree :=
  match (Arena.get a r).child? with
  | some c => eraseL (Arena.collectSiblings a (fun _ => Node.rule) (2 * a.length + 2) c)
  | none => []

/-- length of the segment rooted at `r` according to its pointers -/
def segLen (a : List GNode) (r : Nat) : Nat := 1 + Arena.sizes (readForest a r)

/-- the nodes from `r` are exactly the closed-form layout of the forest their pointers describe -/
def segmentOk (a : List GNode) (key : String) (r : Nat) : Bool :=
  match Arena.get a r with
  | .document id _ k =>
    id == r && k == key &&
      ((a.drop r).take (segLen a r)).map shape == (Arena.layoutDoc r key (readForest a r)).map shape
  | _ => false

def inSomeSegment (a : List GNode) (keys : List (String × Nat)) (i : Nat) : Bool :=
  keys.any fun p => p.2 ≤ i && i < p.2 + segLen a p.2

def disjointSegments (a : List GNode) : List (String × Nat) → Bool
  | [] => true
  | p :: ps =>
    ps.all (fun q => p.2 + segLen a p.2 ≤ q.2 || q.2 + segLen a q.2 ≤ p.2) && disjointSegments a ps

def keysDistinct : List (String × Nat) → Bool
  | [] => true
  | p :: ps => ps.all (fun q => !(q.1 == p.1)) && keysDistinct ps

/-- the executable well-formedness predicate -/
def wfCheck (a : List GNode) (keys : List (String × Nat)) : Bool :=
  keysDistinct keys
  && keys.all (fun p => segmentOk a p.1 p.2)
  && disjointSegments a keys
  && (List.range a.length).all (fun i => (Arena.get a i).isEmpty || inSomeSegment a keys i)

/-- which clause fails (for reports) -/
def wfReport (a : List GNode) (keys : List (String × Nat)) : List String :=
  (if keysDistinct keys then [] else ["two bindings for one key"])
  ++ (keys.filter (fun p => !segmentOk a p.1 p.2)).map (fun p => s!"segment of note {p.1} at {p.2} is not a closed-form forest layout")
  ++ (if disjointSegments a keys then [] else ["segments of two notes overlap"])
  ++ ((List.range a.length).filter (fun i => !((Arena.get a i).isEmpty || inSomeSegment a keys i))).map
      (fun i => s!"live node {i} belongs to no note")

end Wf
end Iwe
