/-
Model of `graph.rs` (`Graph`): the arena plus `keys`, the reference index (`graph/index.rs`), the
title cache, `nodes_map` and front-matter; `from_markdown`, `update_key`, `import`, `collect`,
`to_markdown`, the reference getters and `get_node_id_at`.  Hash maps are association lists (what
depends on iteration order is a parameter of the consumers, see C16).
-/
import IweModel.Model.Render

namespace Iwe

structure Document where
  blocks : List DBlock
  metadata : Option String
  deriving Repr, Inhabited

def assocGet {β} (m : List (String × β)) (k : String) : Option β :=
  match m with
  | [] => none
  | (k', v) :: rest => if k' == k then some v else assocGet rest k

def assocErase {β} (m : List (String × β)) (k : String) : List (String × β) :=
  m.filter fun p => !(p.1 == k)

/-- `HashMap::insert`: one binding per key -/
def assocSet {β} (m : List (String × β)) (k : String) (v : β) : List (String × β) :=
  (k, v) :: assocErase m k

structure Graph where
  arena : List GNode := []
  keys : List (String × Nat) := []
  /-- `RefIndex.block_references`: (target key, id of the reference node); only ever grows -/
  blockRefs : List (String × Nat) := []
  /-- `RefIndex.inline_references`: (target key, id of the section/leaf holding the link) -/
  inlineRefs : List (String × Nat) := []
  titles : List (String × String) := []
  nodesMap : List (String × List (Nat × LineRange)) := []
  globalMap : List (Nat × LineRange) := []
  metadata : List (String × String) := []
  ext : String := ""
  deriving Repr, Inhabited

namespace Graph

def node (g : Graph) (id : Nat) : GNode := Arena.get g.arena id

mutual
/-- `RefIndex::index_node` on the closed-form layout: every reference node and every link in a
section / leaf line of the forest laid out at `base` (tables' cells are not indexed) -/
def indexTree (base : Nat) : BTree → List (String × Nat) × List (String × Nat)
  | .mk n _ cs =>
    let here : List (String × Nat) × List (String × Nat) :=
      match n with
      | .ref key _ _ => ([(key, base)], [])
      | .sect xs => ([], (Inline.refKeysL xs).map fun k => (k, base))
      | .leaf xs => ([], (Inline.refKeysL xs).map fun k => (k, base))
      | _ => ([], [])
    let sub := indexForest (base + 1) cs
    (here.1 ++ sub.1, here.2 ++ sub.2)
def indexForest (base : Nat) : List BTree → List (String × Nat) × List (String × Nat)
  | [] => ([], [])
  | t :: ts =>
    let a := indexTree base t
    let b := indexForest (base + Arena.size t) ts
    (a.1 ++ b.1, a.2 ++ b.2)
end

/-- `extract_ref_text`: plain text of the note's first block if that is a section -/
def titleOf (f : List BTree) : Option String :=
  match f with
  | .mk (.sect xs) _ _ :: _ => some (Inline.plainTexts xs)
  | _ => none

/-- the part of `from_markdown` after reading: build, record ranges, index, cache the title -/
def addDocument (g : Graph) (dir : String → String) (key : String) (d : Document) : Except Site Graph :=
  match Sections.forest (dir key) d.blocks with
  | .error e => .error e
  | .ok f =>
    let id := g.arena.length
    let ranges := Arena.rangesForest (id + 1) f
    let idx := indexForest (id + 1) f
    .ok { g with
      arena := g.arena ++ Arena.layoutDoc id key f
      keys := assocSet g.keys key id
      metadata := match d.metadata with
        | some m => assocSet g.metadata key m
        | none => assocErase g.metadata key
      nodesMap := assocSet g.nodesMap key ranges
      globalMap := g.globalMap ++ ranges
      blockRefs := g.blockRefs ++ idx.1
      inlineRefs := g.inlineRefs ++ idx.2
      titles := match titleOf f with
        | some t => assocSet g.titles key t
        | none => assocErase g.titles key }

/-- `Graph::update_key` (also what `Database::insert_document` calls for a new key) -/
def updateKey (g : Graph) (key : String) (d : Document) : Except Site Graph :=
  let g := match assocGet g.keys key with
    | some id => { g with arena := Arena.deleteBranch g.arena.length g.arena id }
    | none => g
  addDocument g keyParent key d

/-- insertion sort by a strict order; `import` sorts the state by file name -/
def insertBy {α} (lt : α → α → Bool) (x : α) : List α → List α
  | [] => [x]
  | y :: ys => if lt x y then x :: y :: ys else y :: insertBy lt x ys
def sortBy {α} (lt : α → α → Bool) : List α → List α
  | [] => []
  | x :: xs => insertBy lt x (sortBy lt xs)

/-- `Graph::import`: notes in file-name order, keys through `from_file_name` -/
def importDocs (ext : String) (state : List (String × Document)) : Except Site Graph :=
  let sorted := sortBy (fun a b => a.1 < b.1) state
  sorted.foldl
    (fun acc p => match acc with
      | .error e => .error e
      | .ok g => updateKeyNoDelete g (keyFromFileName p.1) p.2)
    (.ok { ext := ext })
where
  /-- in `import` a second file mapping to the same key does not delete the first tree -/
  updateKeyNoDelete (g : Graph) (key : String) (d : Document) : Except Site Graph :=
    addDocument g keyParent key d

def title (g : Graph) (k : String) : Option String := assocGet g.titles k

/-- `GraphNodePointer::node`: payload with refreshed link texts / reference titles -/
def normNode (g : Graph) : Node → Node
  | .sect xs => .sect (Inline.normalizeL g.title xs)
  | .leaf xs => .leaf (Inline.normalizeL g.title xs)
  | .ref key text t =>
    .ref key (match t with
      | .regular => (g.title key).getD text
      | .wiki => ""
      | .wikiPiped => text) t
  | .table h a rows => .table (h.map (Inline.normalizeL g.title)) a (rows.map fun r => r.map (Inline.normalizeL g.title))
  | other => other

/-- `GraphContext::collect` -/
def collect (g : Graph) (key : String) : Except Site Tree :=
  match assocGet g.keys key with
  | none => .error .noKey
  | some id =>
    match Arena.collectTree g.arena g.normNode (2 * g.arena.length + 2) id with
    | some t => .ok t
    | none => .error .noNode

/-- `Graph::to_markdown` -/
def toMarkdown (g : Graph) (key : String) : Except Site String :=
  match g.collect key with
  | .error e => .error e
  | .ok t =>
    match Render.treeMarkdown (keyParent key) g.ext t with
    | .error e => .error e
    | .ok body => .ok (Render.withMeta (assocGet g.metadata key) body)

def dedupNat : List Nat → List Nat
  | [] => []
  | x :: xs => if xs.contains x then dedupNat xs else x :: dedupNat xs

/-- `Graph::get_block_references_to`: live reference nodes pointing at `key` (as a set; sorted here) -/
def blockReferencesTo (g : Graph) (key : String) : List Nat :=
  dedupNat ((g.blockRefs.filter fun p => p.1 == key).map (·.2) |>.filter fun id => !(g.node id).isEmpty)

/-- `Graph::get_inline_references_to` -/
def inlineReferencesTo (g : Graph) (key : String) : List Nat :=
  dedupNat ((g.inlineRefs.filter fun p => p.1 == key).map (·.2) |>.filter fun id => !(g.node id).isEmpty)

/-- `GraphContext::get_node_id_at`: last `nodes_map` entry whose range contains the line -/
def nodeIdAt (g : Graph) (key : String) (line : Nat) : Except Site (Option Nat) :=
  match assocGet g.nodesMap key with
  | none => .error .noKey
  | some m =>
    .ok ((m.reverse.find? fun p => p.2.start ≤ line && line < p.2.stop).map (·.1))

/-- `Graph::node_line_range` -/
def nodeLineRange (g : Graph) (id : Nat) : Option LineRange :=
  -- `HashMap::extend`: a later entry for the same id wins (ids are never reused, so there is one)
  (g.globalMap.reverse.find? fun p => p.1 == id).map (·.2)

/-- `Graph::node_key` -/
def nodeKey (g : Graph) (id : Nat) : Option String :=
  match Arena.toDocument g.arena (g.arena.length + 1) id with
  | some d => (g.node d).key?
  | none => none

end Graph
end Iwe
