/-
Model of `model/tree.rs`: tree surgery used by the refactoring actions and by rename.
All functions are structural over `Tree` / `List Tree`.
-/
import IweModel.Model.Graph

namespace Iwe
namespace Tree

def idEq (t : Tree) (i : Nat) : Bool := t.id == some i
def isSection (t : Tree) : Bool := t.node.isSect
def isList (t : Tree) : Bool := t.node.isList
def isReference (t : Tree) : Bool := t.node.isRef

def flipList : Node → Node
  | .blist => .olist
  | .olist => .blist
  | n => n

mutual
/-- `Tree::change_list_type` -/
def changeListType (i : Nat) : Tree → Tree
  | .mk id n cs => if id == some i then .mk id (flipList n) cs else .mk id n (changeListTypeL i cs)
def changeListTypeL (i : Nat) : List Tree → List Tree
  | [] => []
  | t :: ts => changeListType i t :: changeListTypeL i ts
end

mutual
/-- `Tree::wrap_into_list` -/
def wrapIntoList (i : Nat) : Tree → Tree
  | .mk id n cs => if id == some i then .mk id .blist [.mk id n cs] else .mk id n (wrapIntoListL i cs)
def wrapIntoListL (i : Nat) : List Tree → List Tree
  | [] => []
  | t :: ts => wrapIntoList i t :: wrapIntoListL i ts
end

def anyIdEq (i : Nat) : List Tree → Bool
  | [] => false
  | t :: ts => t.idEq i || anyIdEq i ts

mutual
/-- `Tree::unwrap_list`: the children of the node `i` take its place among its siblings -/
def unwrapList (i : Nat) : Tree → Tree
  | .mk id n cs => .mk id n (if anyIdEq i cs then spliceL i cs else unwrapListL i cs)
def unwrapListL (i : Nat) : List Tree → List Tree
  | [] => []
  | t :: ts => unwrapList i t :: unwrapListL i ts
/-- the `for child in children` loop of `unwrap_list` when some child is the target -/
def spliceL (i : Nat) : List Tree → List Tree
  | [] => []
  | t :: ts => (if t.idEq i then t.children else [unwrapList i t]) ++ spliceL i ts
end

mutual
/-- `Tree::replace` -/
def replace (i : Nat) (r : Tree) : Tree → Tree
  | .mk id n cs => if id == some i then r else .mk id n (replaceL i r cs)
def replaceL (i : Nat) (r : Tree) : List Tree → List Tree
  | [] => []
  | t :: ts => replace i r t :: replaceL i r ts
end

mutual
/-- `Tree::remove_node` -/
def removeNode (i : Nat) : Tree → Tree
  | .mk id n cs => .mk id n (removeNodeL i cs)
def removeNodeL (i : Nat) : List Tree → List Tree
  | [] => []
  | t :: ts => if t.idEq i then removeNodeL i ts else removeNode i t :: removeNodeL i ts
end

/-- `pre_sub_header_position`: number of leading non-section children -/
def preSubHeaderPosition (cs : List Tree) : Nat := (cs.takeWhile fun c => !c.isSection).length

def insertAt {α} (xs : List α) (n : Nat) (x : α) : List α := xs.take n ++ x :: xs.drop n

mutual
/-- `Tree::append_pre_header`: insert `new` before the first sub-section of node `i`
(the real function clones `new` into every recursive call; it is inserted wherever the id matches) -/
def appendPreHeader (i : Nat) (new : Tree) : Tree → Tree
  | .mk id n cs =>
    if id == some i then
      .mk id n (insertAtMapped i new cs)
    else .mk id n (appendPreHeaderL i new cs)
def appendPreHeaderL (i : Nat) (new : Tree) : List Tree → List Tree
  | [] => []
  | t :: ts => appendPreHeader i new t :: appendPreHeaderL i new ts
/-- children with `new` inserted at the pre-sub-header position.  The real function then maps
*every* child — the inserted copy too — through `append_pre_header` again; on the inserted copy
that is the identity unless it contains id `i` itself (a note that references itself: the real
recursion then never ends — finding D25), which is outside the modelled fragment. -/
def insertAtMapped (i : Nat) (new : Tree) : List Tree → List Tree
  | cs => insertAt (appendPreHeaderL i new cs) (preSubHeaderPosition cs) new
end

mutual
/-- `Tree::extract_sections` for one extracted section (`Extract section`) or several (`Extract
sub-sections`): nodes whose id is in the map become a regular reference -/
def extractSections (m : List (Nat × String × String)) : Tree → Tree
  | .mk id n cs =>
    match id.bind (fun i => (m.find? fun e => e.1 == i)) with
    | some (_, key, text) => .mk none (.ref key text .regular) []
    | none => .mk id n (extractSectionsL m cs)
def extractSectionsL (m : List (Nat × String × String)) : List Tree → List Tree
  | [] => []
  | t :: ts => extractSections m t :: extractSectionsL m ts
end

mutual
/-- `Tree::find` -/
def find (i : Nat) : Tree → Option Tree
  | .mk id n cs => if id == some i then some (.mk id n cs) else findL i cs
def findL (i : Nat) : List Tree → Option Tree
  | [] => none
  | t :: ts => match find i t with | some r => some r | none => findL i ts
end

mutual
/-- `Tree::contains` -/
def contains (i : Nat) : Tree → Bool
  | .mk id _ cs => id == some i || containsL i cs
def containsL (i : Nat) : List Tree → Bool
  | [] => false
  | t :: ts => contains i t || containsL i ts
end

mutual
/-- `Tree::is_header`: a section with this id not inside a list -/
def isHeader (i : Nat) : Tree → Bool
  | .mk id n cs =>
    if n.isSect && id == some i then true
    else if n.isList then false
    else isHeaderL i cs
def isHeaderL (i : Nat) : List Tree → Bool
  | [] => false
  | t :: ts => isHeader i t || isHeaderL i ts
end

mutual
/-- `Tree::get_surrounding_section_id`: the section that is the direct parent of `i`
(searching the first child that contains `i`) -/
def surroundingSectionId (i : Nat) : Tree → Option Nat
  | .mk id n cs => if n.isSect && anyIdEq i cs then id else surroundingSectionIdL i cs
def surroundingSectionIdL (i : Nat) : List Tree → Option Nat
  | [] => none
  | t :: ts => if contains i t then surroundingSectionId i t else surroundingSectionIdL i ts
end

mutual
/-- `Tree::get_surrounding_list_id`: the list that is the direct parent of `i` -/
def surroundingListId (i : Nat) : Tree → Option Nat
  | .mk id n cs => if n.isList && anyIdEq i cs then id else surroundingListIdL i cs
def surroundingListIdL (i : Nat) : List Tree → Option Nat
  | [] => none
  | t :: ts => if contains i t then surroundingListId i t else surroundingListIdL i ts
end

mutual
/-- `Tree::get_top_level_surrounding_list_id`: the outermost list containing `i` -/
def topLevelSurroundingListId (i : Nat) : Tree → Option Nat
  | .mk id n cs => if (id == some i || containsL i cs) && n.isList then id else topLevelSurroundingListIdL i cs
def topLevelSurroundingListIdL (i : Nat) : List Tree → Option Nat
  | [] => none
  | t :: ts => if contains i t then topLevelSurroundingListId i t else topLevelSurroundingListIdL i ts
end

mutual
/-- `Tree::change_key` (rename): retarget references and links from `target` to `updated` -/
def changeKey (target updated : String) : Tree → Tree
  | .mk id n cs =>
    .mk id (match n with
      | .sect xs => .sect (Inline.changeKeyL target updated xs)
      | .leaf xs => .leaf (Inline.changeKeyL target updated xs)
      | .ref k text t => .ref (if k == target then updated else k) text t
      | other => other) (changeKeyL target updated cs)
def changeKeyL (target updated : String) : List Tree → List Tree
  | [] => []
  | t :: ts => changeKey target updated t :: changeKeyL target updated ts
end

mutual
/-- number of nodes -/
def size : Tree → Nat
  | .mk _ _ cs => 1 + sizeL cs
def sizeL : List Tree → Nat
  | [] => 0
  | t :: ts => size t + sizeL ts
end

mutual
/-- all node ids in pre-order -/
def ids : Tree → List Nat
  | .mk id _ cs => (match id with | some i => [i] | none => []) ++ idsL cs
def idsL : List Tree → List Nat
  | [] => []
  | t :: ts => ids t ++ idsL ts
end

end Tree
end Iwe
