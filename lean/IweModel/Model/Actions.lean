/-
Model of the seven built-in code actions (`iwes/src/router/server/action.rs`: `action` = is it
offered, `changes` = what it does) and of `Server::handle_rename` (`server.rs`), on top of the
graph model.  Fresh keys are drawn as the server does in `sequential_ids` mode
(`keys().len() + 1`, relative to the note's directory).
-/
import IweModel.Model.TreeOps

namespace Iwe
namespace Actions

inductive Change where
  | create (key : String)
  | update (key : String) (markdown : Except Site String)
  | remove (key : String)
  deriving Repr, Inhabited

/-- `Node::plain_text` -/
def nodePlainText : Node → String
  | .sect xs => Inline.plainTexts xs
  | .leaf xs => Inline.plainTexts xs
  | .ref _ text _ => text
  | .raw _ c => c
  | _ => ""

/-- `random_key` in sequential mode -/
def freshKey (g : Graph) (dir : String) : String := keyFromRel (toString (g.keys.length + 1)) dir

def render (g : Graph) (key : String) (t : Tree) : Except Site String :=
  Render.treeMarkdown (keyParent key) g.ext t

mutual
/-- `SectionExtract::extract_rec` -/
def extractRec (extractId parentId : Nat) (newKey : String) : Tree → Tree
  | .mk id n cs =>
    if id == some parentId then
      let title := match Tree.findL extractId cs with
        | some t => nodePlainText t.node
        | none => ""   -- the real code panics (`expect("to have node")`); guarded by the caller
      let kept := cs.filter fun c => !c.idEq extractId
      .mk id n (Tree.insertAt kept (Tree.preSubHeaderPosition cs) (.mk none (.ref newKey title .regular) []))
    else .mk id n (extractRecL extractId parentId newKey cs)
def extractRecL (extractId parentId : Nat) (newKey : String) : List Tree → List Tree
  | [] => []
  | t :: ts => extractRec extractId parentId newKey t :: extractRecL extractId parentId newKey ts
end

/-- the children of a node that are sections, with their ids -/
def subSectionIds (cs : List Tree) : List Nat :=
  cs.filterMap fun c => if c.isSection then c.id else none

/-- which actions are offered at node `target` (identifiers as in `action.rs`), in provider order -/
def offered (g : Graph) (target : Nat) : Except Site (List String) :=
  match g.nodeKey target with
  | none => .error (.other "node has no document")
  | some key =>
    match g.collect key with
    | .error e => .error e
    | .ok tree =>
      match Tree.find target tree with
      | none => .error .noNode
      | some node =>
        .ok (
          (if (Tree.surroundingListId target tree).isSome then ["refactor.rewrite.list.type"] else [])
          ++ (if (Tree.topLevelSurroundingListId target tree).isSome then ["refactor.rewrite.list.section"] else [])
          ++ (if node.isReference then ["refactor.inline.reference.section", "refactor.inline.reference.quote"] else [])
          ++ (if Tree.isHeader target tree then ["refactor.rewrite.section.list"] else [])
          ++ (if (Tree.surroundingSectionId target tree).isSome && Tree.isHeader target tree then ["refactor.extract.section"] else [])
          ++ (if node.isSection && node.children.any (·.isSection) then ["refactor.extract.subsections"] else []))

/-- `changes` of the action `kind` at node `target`; `.ok none` = the provider returns `None`
(the resolve handler then panics on `unwrap`) -/
def changes (g : Graph) (kind : String) (target : Nat) : Except Site (Option (List Change)) :=
  match g.nodeKey target with
  | none => .error (.other "node has no document")
  | some key =>
    match g.collect key with
    | .error e => .error e
    | .ok tree =>
      match Tree.find target tree with
      | none => .error .noNode
      | some node =>
        if kind == "refactor.rewrite.list.type" then
          .ok ((Tree.surroundingListId target tree).map fun scope =>
            [.update key (render g key (Tree.changeListType scope tree))])
        else if kind == "refactor.rewrite.list.section" then
          .ok ((Tree.topLevelSurroundingListId target tree).map fun scope =>
            [.update key (render g key (Tree.unwrapList scope tree))])
        else if kind == "refactor.rewrite.section.list" then
          .ok (if Tree.isHeader target tree then
            some [.update key (render g key (Tree.wrapIntoList target tree))] else none)
        else if kind == "refactor.extract.section" then
          .ok (match Tree.surroundingSectionId target tree with
            | some parentId =>
              if Tree.isHeader target tree then
                let newKey := freshKey g (keyParent key)
                some [.create newKey,
                      .update newKey (render g newKey node),
                      .update key (render g key (extractRec target parentId newKey tree))]
              else none
            | none => none)
        else if kind == "refactor.extract.subsections" then
          .ok (if node.isSection && node.children.any (·.isSection) then
            let newKey := freshKey g (keyParent key)   -- drawn once per sub-section: the same key every time
            let subs := node.children.filter (·.isSection)
            let m := subs.filterMap fun c => c.id.map fun i => (i, newKey, nodePlainText c.node)
            some ((subs.flatMap fun c => [Change.create newKey, .update newKey (render g newKey c)])
              ++ [.update key (render g key (Tree.extractSections m tree))])
          else none)
        else if kind == "refactor.inline.reference.section" then
          if node.isReference then
            let inlineKey := match node.node with | .ref k _ _ => k | _ => ""
            match Tree.surroundingSectionId target tree with
            | none => .ok none
            | some sectionId =>
              match g.collect inlineKey with
              | .error e => .error e
              | .ok inlined =>
                .ok (some [.remove inlineKey,
                  .update key (render g key (Tree.appendPreHeader sectionId inlined (Tree.removeNode target tree)))])
          else .ok none
        else if kind == "refactor.inline.reference.quote" then
          if node.isReference then
            let inlineKey := match node.node with | .ref k _ _ => k | _ => ""
            match g.collect inlineKey with
            | .error e => .error e
            | .ok inlined =>
              .ok (some [.remove inlineKey,
                .update key (render g key (Tree.replace target (.mk none .quote inlined.children) tree))])
          else .ok none
        else .error (.other "unknown action kind")

end Actions
end Iwe

namespace Iwe
namespace Actions

def dedupStr : List String → List String
  | [] => []
  | x :: xs => if xs.contains x then dedupStr xs else x :: dedupStr xs

/-- what `patch.export_key(k)` gives for a key built into the patch graph from `tree`:
the patch has the main graph's options and front-matter map but no title cache -/
def patchMarkdown (g : Graph) (k : String) (tree : Tree) : Except Site String :=
  match Render.treeMarkdown (keyParent k) g.ext tree with
  | .error e => .error e
  | .ok body => .ok (Render.withMeta (assocGet g.metadata k) body)

/-- `Server::handle_rename`.  `fromKey` = note of the request's uri, `url` = the link url under the
cursor (`none`: no link there), `newName` as typed.  `.error (.other "taken")` = the refusal
(`ResponseError`), other errors = panic sites.  Operation order as in the real
`DocumentChanges::Operations`. -/
def rename (g : Graph) (fromKey : String) (url : Option String) (newName : String) :
    Except Site (Option (List Change)) :=
  let newRoot := keyFromFileName newName
  if (assocGet g.keys newRoot).isSome then .error (.other "taken") else
  match url with
  | none => .ok none
  | some url =>
    let relTo := keyParent fromKey
    let key := keyFromRel url relTo
    let affectedIds := g.blockReferencesTo key ++ g.inlineReferencesTo key
    let affected := Graph.sortBy (fun a b => a < b)
      (dedupStr ((affectedIds.filterMap g.nodeKey).filter fun k => !(k == key)))
    match g.collect key with
    | .error e => .error e
    | .ok tree =>
      let newTree := Tree.changeKey key newRoot tree
      let newKey := keyFromRel newName relTo
      -- `patch.export_key(&new_key)`: the patch holds the note under `newRoot`
      if !(newKey == newRoot) then .error .noKey else
      let updates := affected.map fun k =>
        match g.collect k with
        | .ok t => Change.update k (patchMarkdown g k (Tree.changeKey key newRoot t))
        | .error e => Change.update k (.error e)
      .ok (some (updates ++ [.remove key, .create newName, .update newName (patchMarkdown g newRoot newTree)]))

end Actions
end Iwe
