/-
Model of `model/projector.rs` (`Projector::project` over a `TreeIter`): tree → rendered blocks.
`Graph::to_markdown` always goes through `collect` (a `Tree`) and `TreeIter`, whose `child()`
exists for every node; hence an empty quote / list still yields an (empty) block.
-/
import IweModel.Model.Arena

namespace Iwe
namespace Project

/-- `NodeIter::inlines` -/
def nodeInlines : Node → Inlines
  | .sect xs => xs
  | .leaf xs => xs
  | .ref _ text _ => [.str text]
  | _ => []

def refPara (dir : String) (key text : String) (t : LinkType) : GBlock :=
  .para [.link (keyToRel key dir) "" t
    (match t with
     | .regular => [.str text]
     | .wiki => []
     | .wikiPiped => [.str text])]

def firstIsLeaf : List Tree → Bool
  | Tree.mk _ n _ :: _ => n.isLeaf
  | [] => false

mutual
/-- `project_node` for one node (without its following siblings); `lvl` = `header_level` -/
def tree (dir : String) (lvl : Nat) : Tree → List GBlock
  | .mk _ n cs =>
    match n with
    | .document _ => forest dir lvl cs
    | .sect xs => .header (lvl + 1) xs :: forest dir (lvl + 1) cs
    | .quote => [.quote (forest dir 0 cs)]
    | .blist => [.blist (items dir cs)]
    | .olist => [.olist (items dir cs)]
    | .leaf xs => [.para xs]
    | .raw l c => [.code l c]
    | .rule => [.rule]
    | .ref key text t => [refPara dir key text t]
    | .table h a r => [.table h a r]
/-- a node and its following siblings -/
def forest (dir : String) (lvl : Nat) : List Tree → List GBlock
  | [] => []
  | t :: ts => tree dir lvl t ++ forest dir lvl ts
/-- `project_list_item`: one item per sibling; `Para` when the item's first child is a leaf, else `Plain` -/
def items (dir : String) : List Tree → List (List GBlock)
  | [] => []
  | .mk _ n cs :: ts =>
    ((if firstIsLeaf cs then GBlock.para (nodeInlines n) else GBlock.plain (nodeInlines n))
      :: forest dir 0 cs) :: items dir ts
end

/-- `Projector::project(iter, parent)` -/
def project (dir : String) (t : Tree) : List GBlock := tree dir 0 t

end Project
end Iwe
