/-
Model of `BasePath` (`iwes/src/router/server.rs`: `key_to_url`, `name_to_url`, `url_to_key`),
`Key::to_path` and the key derivation of `liwe/src/fs.rs` — C14 — for *safe* names: characters that
crate `url` writes into a path unescaped.  For any other character the real code goes through
percent-encoding, which is not modelled (finding D15 lives there).
-/
import IweModel.Model.Path

namespace Iwe
namespace Uri
open Path

/-- characters that survive `Url::parse` / `Url::join` in a path segment unchanged and do not
start a query or fragment -/
def safeChar (c : Char) : Bool :=
  c.isAlphanum || c = '-' || c = '_' || c = '.' || c = '~' || c = '+' || c = ',' || c = '=' || c = '@' || c = '!'

/-- a key: `/`-separated non-empty safe components, none of them `.` or `..` -/
def safeComponent (s : Str) : Bool := !s.isEmpty && s.all safeChar && s != ['.'] && s != ['.', '.']

/-- the base string of `BasePath`: `file://<base_path>/` -/
def baseOf (basePath : Str) : Str := "file://".toList ++ basePath ++ ['/']

/-- `Url::parse(base).join(key.to_path())` for a safe key and a safe base: plain concatenation
(the base ends in `/`, so the relative reference is appended) -/
def keyToUrl (base : Str) (key : Str) : Str := base ++ toPath key

/-- `name_to_url` -/
def nameToUrl (base : Str) (name : Str) : Str := base ++ name ++ ".md".toList

/-- Rust `str::trim_start_matches(prefix)`: strip the prefix as often as it occurs -/
def trimStartMatches (pre : Str) : Nat → Str → Str
  | 0, s => s
  | fuel + 1, s =>
    if pre.isEmpty then s
    else if pre.isPrefixOf s then trimStartMatches pre fuel (s.drop pre.length) else s

/-- `url_to_key`: `Key::from_file_name(url.to_string().trim_start_matches(base))` -/
def urlToKey (base : Str) (url : Str) : Str := fromFileName (trimStartMatches base url.length url)

/-- one step of the dot-segment removal of `Url::join` (RFC 3986 §5.2.4 as crate `url` does it for a
relative reference whose segments are not empty); the path segments are kept reversed.  `..` at the
root stays at the root. -/
def urlStep (st : List Str) : Comp → List Str
  | .cur => st
  | .parent => st.drop 1
  | .normal n => n :: st

/-- the path segments of `Url::parse(base).join(rel)` for a base path that ends in `/` and has the
segments `baseSegs` -/
def urlResolve (baseSegs : List Str) (rel : List Comp) : List Str :=
  (rel.foldl urlStep baseSegs.reverse).reverse

/-- `handle_goto_definition`: the URI answered for a link with destination `url` met in note `key`:
`relative_to_full_path(RelativePath::new(key.parent()).join(url))` — for a base path and a
destination made of safe characters, the base path without a trailing slash -/
def definitionTarget (basePath key url : Str) : Str :=
  let rel := pushStr (parent key) url
  let rel := trimMd rel ++ ".md".toList
  "file:///".toList ++ "/".toList.intercalate (urlResolve (pieces [] basePath) (comps rel))

/-- key of a file found on disk (`fs.rs`): directory components joined with `/`, then the file name
with every trailing `.md` removed -/
def keyOfFile (dirs : List Str) (fileName : Str) : Str :=
  match dirs with
  | [] => trimMd fileName
  | _ => "/".toList.intercalate dirs ++ ['/'] ++ trimMd fileName

/-- path (relative to the library) that `write_file` uses for a key -/
def pathOfKey (key : Str) : Str := toPath key

end Uri
end Iwe
