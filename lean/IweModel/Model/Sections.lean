/-
Model of `graph/sections_builder.rs` as a pure function from reader blocks to a forest.
The imperative cursor/insert-flag `GraphBuilder` is not transcribed: the forest is built directly
and laid out into the arena by the closed form in `Arena.lean` (DESIGN.md §3.2); the
correspondence run compares complete arena dumps, so a pointer-level deviation is visible.

Inputs on which the real builder's cursor does something a forest cannot express
(a `set_child_id` that overwrites an existing child pointer, or a list node left with the insert
flag on) yield `.error (.unmodelled …)`: they are outside the modelled fragment and are handled
as findings by the harness.
-/
import IweModel.Model.Inline

namespace Iwe

/-- a built node before ids are assigned: payload, the `nodes_map` line range it gets (if any), children -/
inductive BTree where
  | mk (node : Node) (lr : Option LineRange) (children : List BTree)
  deriving Repr, Inhabited

namespace BTree
def node : BTree → Node | mk n _ _ => n
def lr : BTree → Option LineRange | mk _ l _ => l
def children : BTree → List BTree | mk _ _ cs => cs
end BTree

namespace Sections

def isHeader : DBlock → Bool
  | .header .. => true
  | _ => false

def headerLevel : DBlock → Nat
  | .header _ l _ => l
  | _ => 0

/-- `DocumentBlock::is_ref` + `url` + `ref_text` + `ref_type`: a paragraph that is exactly one reference link -/
def paraRef (xs : Inlines) : Option (String × String × LinkType) :=
  match xs with
  | [.link url _ t ys] => if isRefUrl url then some (url, Inline.plainTexts ys, t) else none
  | _ => none

/-- a header that closes a section opened at level `l` -/
def closes (l : Nat) (b : DBlock) : Bool := isHeader b && headerLevel b ≤ l

/-- when `withLr = false` no node gets a line range (contents of block quotes: the nested
`SectionsBuilder`'s `nodes_map` is dropped — finding D22) -/
def keep (withLr : Bool) (lr : LineRange) : Option LineRange := if withLr then some lr else none

mutual
/-- `process_blocks`: non-header blocks up to the first header, then sections split at headers whose
level is ≤ the level of that first header. `dir` is the linking note's directory. -/
def blocks : Nat → String → Bool → List DBlock → Except Site (List BTree)
  | 0, _, _, _ => .error (.other "fuel")
  | _ + 1, _, _, [] => .ok []
  | f + 1, dir, w, b :: rest =>
    if isHeader b then sects f dir w (headerLevel b) (b :: rest)
    else
      match block f dir w b with
      | .error e => .error e
      | .ok t =>
        match blocks f dir w rest with
        | .error e => .error e
        | .ok ts => .ok (t :: ts)

/-- the sections of a range that starts with a header; `l` = level of the first header of the range -/
def sects : Nat → String → Bool → Nat → List DBlock → Except Site (List BTree)
  | 0, _, _, _, _ => .error (.other "fuel")
  | _ + 1, _, _, _, [] => .ok []
  | f + 1, dir, w, l, b :: rest =>
    match b with
    | .header lr _ xs =>
      let body := rest.takeWhile (fun x => !closes l x)
      let tail := rest.dropWhile (fun x => !closes l x)
      match blocks f dir w body with
      | .error e => .error e
      | .ok cs =>
        match sects f dir w l tail with
        | .error e => .error e
        | .ok ts => .ok (BTree.mk (.sect xs) (keep w lr) cs :: ts)
    | _ => .error (.other "sects: range does not start with a header")

/-- `block` -/
def block : Nat → String → Bool → DBlock → Except Site BTree
  | 0, _, _, _ => .error (.other "fuel")
  | f + 1, dir, w, b =>
    match b with
    | .code lr lang text => .ok (BTree.mk (.raw lang text) (keep w lr) [])
    | .para lr xs =>
      match paraRef xs with
      | some (url, text, t) => .ok (BTree.mk (.ref (keyFromRel url dir) text t) (keep w lr) [])
      | none => .ok (BTree.mk (.leaf xs) (keep w lr) [])
    | .blist its =>
      match items f dir w its with
      | .error e => .error e
      | .ok [] => .error (.unmodelled "list without any non-empty item: insert flag stays on")
      | .ok cs => .ok (BTree.mk .blist none cs)
    | .olist its =>
      match items f dir w its with
      | .error e => .error e
      | .ok [] => .error (.unmodelled "list without any non-empty item: insert flag stays on")
      | .ok cs => .ok (BTree.mk .olist none cs)
    | .quote lr bs =>
      match blocks f dir false bs with
      | .error e => .error e
      | .ok cs => .ok (BTree.mk .quote (keep w lr) cs)
    | .rule lr => .ok (BTree.mk .rule (keep w lr) [])
    | .header .. => .error .headerInBlock
    | .table lr h al rows => .ok (BTree.mk (.table h al rows) (keep w lr) [])

/-- `process_section(0..b.len(), b)` for one list item -/
def item : Nat → String → Bool → List DBlock → Except Site (List BTree)
  | 0, _, _, _ => .error (.other "fuel")
  | _ + 1, _, _, [] => .ok []
  | f + 1, dir, w, b :: rest =>
    match b with
    | .para lr xs =>
      match blocks f dir w rest with
      | .error e => .error e
      | .ok cs => .ok [BTree.mk (.sect xs) (keep w lr) cs]
    | .header lr _ xs =>
      match blocks f dir w rest with
      | .error e => .error e
      | .ok cs => .ok [BTree.mk (.sect xs) (keep w lr) cs]
    | .blist its => itemList f dir w its rest
    | .olist its => itemList f dir w its rest
    | _ => .error .sectionBlock

/-- an item whose first block is a list: that list's items are merged into the enclosing list;
further blocks of the item go under the last merged item -/
def itemList : Nat → String → Bool → List (List DBlock) → List DBlock → Except Site (List BTree)
  | 0, _, _, _, _ => .error (.other "fuel")
  | f + 1, dir, w, its, rest =>
    match items f dir w its with
    | .error e => .error e
    | .ok inner =>
      match rest with
      | [] => .ok inner
      | _ :: _ =>
        match inner.getLast? with
        | none => .error (.unmodelled "item starts with a list without items and continues")
        | some (BTree.mk n lr []) =>
          match blocks f dir w rest with
          | .error e => .error e
          | .ok cs => .ok (inner.dropLast ++ [BTree.mk n lr cs])
        | some (BTree.mk _ _ (_ :: _)) =>
          .error (.unmodelled "blocks after a leading list overwrite the child pointer of its last item")

def items : Nat → String → Bool → List (List DBlock) → Except Site (List BTree)
  | 0, _, _, _ => .error (.other "fuel")
  | _ + 1, _, _, [] => .ok []
  | f + 1, dir, w, it :: its =>
    match item f dir w it with
    | .error e => .error e
    | .ok ts =>
      match items f dir w its with
      | .error e => .error e
      | .ok us => .ok (ts ++ us)
end

mutual
def dsize : DBlock → Nat
  | .quote _ bs => 1 + dsizes bs
  | .blist its => 1 + dsizess its
  | .olist its => 1 + dsizess its
  | _ => 1
def dsizes : List DBlock → Nat
  | [] => 1
  | b :: bs => 1 + dsize b + dsizes bs
def dsizess : List (List DBlock) → Nat
  | [] => 1
  | b :: bs => 1 + dsizes b + dsizess bs
end

/-- enough fuel for any document (each recursive call strictly decreases `dsizes`-style measures
by at least one; a factor 2 covers the extra hop through `sects`/`itemList`) -/
def fuelFor (bs : List DBlock) : Nat := 2 * dsizes bs + 2

/-- `SectionsBuilder::new(builder, blocks, key)`: the forest of a note whose key has parent `dir` -/
def forest (dir : String) (bs : List DBlock) : Except Site (List BTree) :=
  blocks (fuelFor bs) dir true bs

end Sections
end Iwe
