/-
Model of `liwe/src/fs.rs` (`write_file`, `write_store_at_path`) and of `iwe normalize`
(`iwe/src/main.rs`) over an abstract file system with crash points — C19.
A file system is a finite map path → content.  Writing a note is a sequence of primitive steps
(the system calls seen under strace); a failure or a kill may happen between any two steps — and
*inside* a write: a `write` step carries the prefix that made it to the disk.
`atomic = true` is the code after the D7 repair (temp file + `rename`), `false` the original
`fs::write` (open with truncation, write, close).  POSIX `rename` is assumed atomic.
-/
namespace Iwe
namespace Fs

abbrev Path := String
abbrev Disk := List (Path × String)

def get (d : Disk) (p : Path) : Option String :=
  match d.find? (fun e => e.1 == p) with
  | some e => some e.2
  | none => none

def put (d : Disk) (p : Path) (c : String) : Disk := (p, c) :: d.filter (fun e => !(e.1 == p))
def del (d : Disk) (p : Path) : Disk := d.filter (fun e => !(e.1 == p))

inductive Step where
  /-- `open(path, O_WRONLY|O_CREAT|O_TRUNC)`: the file exists and is empty -/
  | openTrunc (p : Path)
  /-- one `write`: the file's content is extended by `chunk` -/
  | append (p : Path) (chunk : String)
  | rename (src dst : Path)
  | unlink (p : Path)
  deriving Repr, Inhabited, DecidableEq

def apply (d : Disk) : Step → Disk
  | .openTrunc p => put d p ""
  | .append p c => put d p ((get d p).getD "" ++ c)
  | .rename s t =>
    match get d s with
    | some c => put (del d s) t c
    | none => d
  | .unlink p => del d p

def run (d : Disk) (steps : List Step) : Disk := steps.foldl apply d

def notePath (base key : String) : Path := base ++ "/" ++ key ++ ".md"
def tmpPath (base key : String) : Path := base ++ "/" ++ key ++ ".md.tmp"

/-- the steps of `write_file(key, content, base)`; `chunks` is how the content is split over `write` calls -/
def writeFile (atomic : Bool) (base key : String) (chunks : List String) : List Step :=
  if atomic then
    [Step.openTrunc (tmpPath base key)] ++ chunks.map (Step.append (tmpPath base key))
      ++ [Step.rename (tmpPath base key) (notePath base key)]
  else
    [Step.openTrunc (notePath base key)] ++ chunks.map (Step.append (notePath base key))

/-- `write_store_at_path`: every note of the export, one after the other -/
def writeStore (atomic : Bool) (base : String) : List (String × List String) → List Step
  | [] => []
  | (key, chunks) :: rest => writeFile atomic base key chunks ++ writeStore atomic base rest

/-- `write_file` when its step number `k` (0 = opening the temporary file, 1 … n = the writes, n + 1 = the
`rename`) returns an error instead of being executed: the steps before it, then the clean-up of the error
branch — `remove_file(tmp)` after a failed `fs::write`; a failed `rename` is returned as it is and leaves the
temporary file.  `k` past the last step = no failure. -/
def writeFileFailing (base key : String) (chunks : List String) (k : Nat) : List Step :=
  let steps := writeFile true base key chunks
  if k ≤ chunks.length then steps.take k ++ [Step.unlink (tmpPath base key)]
  else steps.take k

/-- `write_store_at_path` stops at the first error (`?`): the notes before note number `i` are written, note
`i` fails at its step `k`, the rest is not touched -/
def writeStoreFailing (base : String) : List (String × List String) → Nat → Nat → List Step
  | [], _, _ => []
  | (key, chunks) :: _, 0, k => writeFileFailing base key chunks k
  | (key, chunks) :: rest, i + 1, k => writeFile true base key chunks ++ writeStoreFailing base rest i k

/-- the disk after a crash (kill, power loss, or an error return that aborts the run) after `k` steps -/
def crashAfter (d : Disk) (steps : List Step) (k : Nat) : Disk := run d (steps.take k)

end Fs
end Iwe
