/-
Model of `graph/path.rs` (`graph_to_paths`, `paths_for_node`), `Graph::search_paths`,
`model/rank.rs` and the ordering / truncation of `Database::global_search` — C18.
Pointer walks take fuel; the parallel iterators and hash sets of the real code only affect the
order in which paths are *found*, which the final `sorted().dedup()` erases.
-/
import IweModel.Model.Graph

namespace Iwe
namespace Paths

def fuelOf (g : Graph) : Nat := g.arena.length + 1

/-- lexicographic order on id vectors (`NodePath: Ord`) -/
def pathLt : List Nat → List Nat → Bool
  | [], [] => false
  | [], _ :: _ => true
  | _ :: _, [] => false
  | a :: as, b :: bs => a < b || (a == b && pathLt as bs)

def insertSorted (p : List Nat) : List (List Nat) → List (List Nat)
  | [] => [p]
  | q :: qs => if p == q then q :: qs else if pathLt p q then p :: q :: qs else q :: insertSorted p qs

/-- `sorted().dedup()` -/
def sortDedup (ps : List (List Nat)) : List (List Nat) := ps.foldr insertSorted []

/-- `paths_for_node`; `visited` is the set of nodes on the current walk (cycle guard).
For a section: every path of its parent extended by the section, plus the section alone.
For a document: the paths of the parents of the (live) block references to it. -/
def pathsForNode (g : Graph) : Nat → List Nat → Nat → List (List Nat)
  | 0, _, _ => []
  | fuel + 1, visited, id =>
    if visited.contains id then [] else
    match g.node id with
    | .document _ _ key =>
      let refs := (g.blockRefs.filter fun p => p.1 == key).map (·.2)
      refs.flatMap fun r =>
        match Arena.toParent g.arena (fuelOf g) r with
        | some p => pathsForNode g fuel (id :: visited) p
        | none => []
    | .node _ _ _ _ (.sect _) =>
      (match Arena.toParent g.arena (fuelOf g) id with
       | some p => (pathsForNode g fuel (id :: visited) p).map (· ++ [id])
       | none => []) ++ [[id]]
    | _ => []

/-- `graph_to_paths` -/
def graphToPaths (g : Graph) : List (List Nat) :=
  let live := (List.range g.arena.length).filter fun id =>
    !(g.node id).isEmpty && !Arena.isInList g.arena (fuelOf g) id
  let all := live.flatMap fun id => pathsForNode g (2 * g.arena.length + 2) [] id
  let kept := all.filter fun p =>
    match p.head? with
    | none => false
    | some first =>
      (match g.nodeKey first with
       | some k => (g.blockReferencesTo k).isEmpty
       | none => false)
      && (match Arena.toParent g.arena (fuelOf g) first with
          | some par => (g.node par).isDocument
          | none => false)
  sortDedup kept

def nodeText (g : Graph) (id : Nat) : String :=
  match g.node id with
  | .node _ _ _ _ (.sect xs) => Inline.plainTexts xs
  | .node _ _ _ _ (.leaf xs) => Inline.plainTexts xs
  | _ => ""

/-- `node_rank`: for the first block of a note, if it is a section: the number of live inline +
block references to the note; otherwise 0 -/
def nodeRank (g : Graph) (id : Nat) : Nat :=
  match g.node id with
  | .node _ prev _ _ (.sect _) =>
    if (g.node prev).isDocument then
      match g.nodeKey id with
      | some k => (g.inlineReferencesTo k).length + (g.blockReferencesTo k).length
      | none => 0
    else 0
  | _ => 0

structure SearchPath where
  text : String
  rank : Nat
  key : String
  root : Bool
  line : Nat
  path : List Nat
  deriving Repr, Inhabited

/-- stable insertion sort by a "comes strictly before" relation -/
def insertStable {α} (before : α → α → Bool) (x : α) : List α → List α
  | [] => [x]
  | y :: ys => if before y x || !(before x y) then y :: insertStable before x ys else x :: y :: ys
def sortStable {α} (before : α → α → Bool) (xs : List α) : List α :=
  xs.foldl (fun acc x => insertStable before x acc) []

/-- `Graph::search_paths` -/
def searchPaths (g : Graph) : List SearchPath :=
  let sps := (graphToPaths g).map fun p =>
    let target := p.getLast?.getD 0
    { text := " ".intercalate (p.map fun id => Render.trim (nodeText g id))
      rank := nodeRank g target
      key := (g.nodeKey target).getD ""
      root := p.length == 1
      line := ((g.nodeLineRange target).map (·.start)).getD 0
      path := p : SearchPath }
  sortStable (fun a b => a.rank > b.rank || (a.rank == b.rank && a.key < b.key)) sps

/-- `Database::global_search`: `scores[i]` is the fuzzy score of path `i` (an input of the model:
crate fuzzy-matcher is not modelled); documented order, at most 100 entries -/
def globalSearch (paths : List SearchPath) (scores : List Nat) (emptyQuery : Bool) : List SearchPath :=
  let ps := paths.zip scores
  let sorted := sortStable (fun (a b : SearchPath × Nat) =>
    if emptyQuery then
      a.1.rank > b.1.rank || (a.1.rank == b.1.rank && a.1.text.utf8ByteSize < b.1.text.utf8ByteSize)
    else
      a.2 > b.2 || (a.2 == b.2 && (a.1.text.utf8ByteSize < b.1.text.utf8ByteSize
        || (a.1.text.utf8ByteSize == b.1.text.utf8ByteSize && a.1.rank > b.1.rank)))) ps
  (sorted.map (·.1)).take 100

end Paths
end Iwe
