/-
Model of `markdown/reader.rs` (`MarkdownEventsReader::read`): the stack machine that turns the
pulldown-cmark event stream into `DocumentBlock`s.  The event stream itself (the Markdown parser) is
an input: the harness takes it from its own pulldown-cmark pass with the reader's options.
Every `expect` / `unwrap` / `panic!` of the real code that an event stream can reach is an explicit
`.error site`.
-/
import IweModel.Model.Doc
import IweModel.Model.Position

namespace Iwe
namespace Reader

inductive InlineKind where
  | emph | strong | strike
  | link (url title : String) (t : LinkType)
  | image (url title : String)
  deriving Repr, Inhabited

/-- pulldown-cmark events as far as the reader distinguishes them; `s e` = byte range in the source -/
inductive Ev where
  | startPara (s e : Nat) | endPara
  | startHeading (s e : Nat) (level : Nat) | endHeading
  | startQuote (s e : Nat) | endQuote
  | startCode (s e : Nat) (lang : Option String) | endCode
  | startHtml | endHtml
  | startList (ordered : Bool) | endList
  | startItem | endItem
  | startTable (s e : Nat) (align : List Align) | endTable
  | startRow | startCell
  | startInline (k : InlineKind) (s e : Nat) | endInline
  | startMeta | endMeta
  | text (s e : Nat) (t : String)
  | code (s e : Nat) (t : String)
  | math (s e : Nat) (t : String)
  | inlineHtml (s e : Nat) (t : String)
  | rule (s e : Nat)
  /-- events and tags with an empty arm: Html, FootnoteReference, SoftBreak, HardBreak,
  TaskListMarker, DisplayMath, TableHead / cell / row ends, item end, footnote / definition-list /
  super- / subscript tags -/
  | ignored
  deriving Repr, Inhabited

/-- an inline container under construction -/
structure OpenInline where
  kind : InlineKind
  children : Inlines
  pos : LineRange
  deriving Repr, Inhabited

def OpenInline.close (o : OpenInline) : Inline :=
  match o.kind with
  | .emph => .emph o.children
  | .strong => .strong o.children
  | .strike => .strikeout o.children
  | .link url title t => .link url title t o.children
  | .image url title => .image url title o.children

structure St where
  inlines : List OpenInline := []      -- head = innermost
  stack : List DBlock := []            -- head = innermost open block
  blocks : List DBlock := []           -- finished top-level blocks, in order
  metaBlock : Bool := false
  metadata : Option String := none
  deriving Repr, Inhabited

def appendLast {α} (xs : List (List α)) (x : α) : Option (List (List α)) :=
  match xs with
  | [] => none
  | [l] => some [l ++ [x]]
  | l :: l2 :: rest => (appendLast (l2 :: rest) x).map (l :: ·)

def appendLastRow (rows : List (List Inlines)) (i : Inline) : Option (List (List Inlines)) :=
  match rows with
  | [] => none
  | [r] => (appendLast r i).map ([·])
  | r :: r2 :: rest => (appendLastRow (r2 :: rest) i).map (r :: ·)

/-- list arms of `append_inline`: a bare inline of a (tight) list item continues the implicit paragraph at the
end of the item, or starts one — also after a code block, rule, heading, quote or nested list of the item -/
def appendToItem : List DBlock → Inline → LineRange → List DBlock
  | [], i, pos => [.para pos [i]]
  | [.para lr xs], i, _ => [.para lr (xs ++ [i])]
  | [b], i, pos => [b, .para pos [i]]
  | b :: b2 :: rest, i, pos => b :: appendToItem (b2 :: rest) i pos

/-- the inline goes to the last item; `items.last_mut().unwrap()` on an empty list panics -/
def appendToItems : List (List DBlock) → Inline → LineRange → Except Site (List (List DBlock))
  | [], _, _ => .error (.other "append_inline: list without item")
  | [it], i, pos => .ok [appendToItem it i pos]
  | it :: it2 :: rest, i, pos =>
    match appendToItems (it2 :: rest) i pos with
    | .error e => .error e
    | .ok its => .ok (it :: its)

mutual
/-- `DocumentBlock::append_inline` (recursive through quotes) -/
def appendInline : DBlock → Inline → LineRange → Except Site DBlock
  | .para lr xs, i, _ => .ok (.para lr (xs ++ [i]))
  | .header lr l xs, i, _ => .ok (.header lr l (xs ++ [i]))
  | .code lr l t, _, _ => .ok (.code lr l t)
  | .rule lr, _, _ => .ok (.rule lr)
  | .quote lr bs, i, pos =>
    match appendToBlocks bs i pos with
    | .error e => .error e
    | .ok bs' => .ok (.quote lr bs')
  | .blist items, i, pos =>
    match appendToItems items i pos with
    | .error e => .error e
    | .ok its => .ok (.blist its)
  | .olist items, i, pos =>
    match appendToItems items i pos with
    | .error e => .error e
    | .ok its => .ok (.olist its)
  | .table lr header al rows, i, _ =>
    match rows with
    | [] =>
      match appendLast header i with
      | some h => .ok (.table lr h al rows)
      | none => .ok (.table lr header al rows)
    | _ :: _ =>
      match appendLastRow rows i with
      | some rs => .ok (.table lr header al rs)
      | none => .ok (.table lr header al rows)
/-- quote arm: the inline goes to the last block (a fresh paragraph when there is none) -/
def appendToBlocks : List DBlock → Inline → LineRange → Except Site (List DBlock)
  | [], i, pos => .ok [.para pos [i]]
  | [b], i, pos =>
    match appendInline b i pos with
    | .error e => .error e
    | .ok b' => .ok [b']
  | b :: b2 :: rest, i, pos =>
    match appendToBlocks (b2 :: rest) i pos with
    | .error e => .error e
    | .ok bs => .ok (b :: bs)
end

def isContainer : DBlock → Bool
  | .quote _ _ => true | .blist _ => true | .olist _ => true | _ => false

/-- push onto the last item; `list.items.last_mut().unwrap()` panics without items -/
def pushLastItem : List (List DBlock) → DBlock → Except Site (List (List DBlock))
  | [], _ => .error (.other "append_block: list without item")
  | [it], b => .ok [it ++ [b]]
  | it :: it2 :: rest, b =>
    match pushLastItem (it2 :: rest) b with
    | .error e => .error e
    | .ok its => .ok (it :: its)

/-- `DocumentBlock::append_block` -/
def appendBlock : DBlock → DBlock → Except Site DBlock
  | .quote lr bs, b => .ok (.quote lr (bs ++ [b]))
  | .blist items, b =>
    match pushLastItem items b with
    | .error e => .error e
    | .ok its => .ok (.blist its)
  | .olist items, b =>
    match pushLastItem items b with
    | .error e => .error e
    | .ok its => .ok (.olist its)
  | _, _ => .error (.other "append_block: not a container")

/-- `append_item` -/
def appendItem : DBlock → Except Site DBlock
  | .blist items => .ok (.blist (items ++ [[]]))
  | .olist items => .ok (.olist (items ++ [[]]))
  | _ => .error (.other "append_item: not a list")

/-- `append_row` -/
def appendRow : DBlock → Except Site DBlock
  | .table lr h al rows => .ok (.table lr h al (rows ++ [[]]))
  | _ => .error (.other "append_row: not a table")

def pushCell : List (List Inlines) → List (List Inlines)
  | [] => []
  | [r] => [r ++ [[]]]
  | r :: r2 :: rest => r :: pushCell (r2 :: rest)

/-- `append_cell` -/
def appendCell : DBlock → Except Site DBlock
  | .table lr h al [] => .ok (.table lr (h ++ [[]]) al [])
  | .table lr h al (r :: rs) => .ok (.table lr h al (pushCell (r :: rs)))
  | _ => .error (.other "append_cell: not a table")

/-- `top_block()`: `expect("to have element")` -/
def top (st : St) : Except Site DBlock :=
  match st.stack with
  | [] => .error .emptyStack
  | b :: _ => .ok b

def setTop (st : St) (b : DBlock) : St := { st with stack := b :: st.stack.tail }

def pushBlock (st : St) (b : DBlock) : St := { st with stack := b :: st.stack }

/-- `pop_block` -/
def popBlock (st : St) : Except Site St :=
  match st.stack with
  | [] => .error (.other "pop_block: empty stack")
  | [b] => .ok { st with stack := [], blocks := st.blocks ++ [b] }
  | b :: t :: rest =>
    if isContainer t then
      match appendBlock t b with
      | .error e => .error e
      | .ok t' => .ok { st with stack := t' :: rest }
    else .ok { st with stack := t :: rest }     -- a block closed inside a non-container is dropped

/-- a finished inline (`push_inline` of a leaf + `pop_inline`, or the tail of `pop_inline`) -/
def emit (st : St) (i : Inline) (pos : LineRange) : Except Site St :=
  match st.inlines with
  | [] =>
    match top st with
    | .error e => .error e
    | .ok b =>
      match appendInline b i pos with
      | .error e => .error e
      | .ok b' => .ok (setTop st b')
  | o :: rest => .ok { st with inlines := { o with children := o.children ++ [i] } :: rest }

/-- `pop_inline` for a container inline -/
def popInline (st : St) : Except Site St :=
  match st.inlines with
  | [] => .error (.other "pop_inline: empty stack")
  | o :: rest => emit { st with inlines := rest } o.close o.pos

def lr (content : Position.Bytes) (s e : Nat) : LineRange :=
  let r := Position.toLineRange content s e
  ⟨r.1, r.2⟩

/-- one iteration of the `while let Some((event, range))` loop -/
def step (content : Position.Bytes) (st : St) : Ev → Except Site St
  | .startPara s e => .ok (pushBlock st (.para (lr content s e) []))
  | .startHeading s e l => .ok (pushBlock st (.header (lr content s e) l []))
  | .startQuote s e => .ok (pushBlock st (.quote (lr content s e) []))
  | .startCode s e lang => .ok (pushBlock st (.code (lr content s e) lang ""))
  | .startTable s e al => .ok (pushBlock st (.table (lr content s e) [] al []))
  | .startList ordered => .ok (pushBlock st (if ordered then .olist [] else .blist []))
  | .endPara | .endHeading | .endQuote | .endCode | .endList | .endTable => popBlock st
  | .startHtml | .endHtml | .endItem | .ignored => .ok st
  | .startItem =>
    match top st with
    | .error e => .error e
    | .ok b => match appendItem b with
      | .error e => .error e
      | .ok b' => .ok (setTop st b')
  | .startRow =>
    match top st with
    | .error e => .error e
    | .ok b => match appendRow b with
      | .error e => .error e
      | .ok b' => .ok (setTop st b')
  | .startCell =>
    match top st with
    | .error e => .error e
    | .ok b => match appendCell b with
      | .error e => .error e
      | .ok b' => .ok (setTop st b')
  | .startInline k s e => .ok { st with inlines := ⟨k, [], lr content s e⟩ :: st.inlines }
  | .endInline => popInline st
  | .startMeta => .ok { st with metaBlock := true }
  | .endMeta => .ok { st with metaBlock := false }
  | .text s e t =>
    if st.metaBlock then .ok { st with metadata := some t }
    else
      match top st with
      | .error e => .error e
      | .ok (.code l lang txt) => .ok (setTop st (.code l lang (txt ++ t)))
      | .ok _ => emit st (.str t) (lr content s e)
  | .code s e t => emit st (.code t) (lr content s e)
  | .math s e t => emit st (.math t) (lr content s e)
  | .inlineHtml s e t => emit st (.str t) (lr content s e)
  | .rule s e => popBlock (pushBlock st (.rule (lr content s e)))

def run (content : Position.Bytes) : St → List Ev → Except Site St
  | st, [] => .ok st
  | st, ev :: evs =>
    match step content st ev with
    | .error e => .error e
    | .ok st' => run content st' evs

/-- `MarkdownEventsReader::read`: the finished top-level blocks and the front matter; blocks still
open at the end of the stream are not part of the result -/
def read (content : Position.Bytes) (evs : List Ev) : Except Site (List DBlock × Option String) :=
  match run content {} evs with
  | .error e => .error e
  | .ok st => .ok (st.blocks, st.metadata)

end Reader
end Iwe
