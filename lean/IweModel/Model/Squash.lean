/-
Model of `Tree::squash_from_pointer` (model/tree.rs) — C17.  The real function recurses on
(depth, pointer); here the recursion is split so that Lean accepts it structurally: the outer
recursion is on the depth (`jumpAt`), the inner one on the tree (`sqTree`).  Termination for
every reference graph (cycles, self-loops) is therefore by construction.
`lib k` is the collected tree of note `k` (`GraphContext::collect`), `none` for a missing note.
-/
import IweModel.Model.TreeOps

namespace Iwe
namespace Squash

/-- children vector of the real code: first child, then the other non-references, then the other
references — applied to the already expanded children (`(is_reference, expansion)`) -/
def assemble : List (Bool × List Tree) → List Tree
  | [] => []
  | (_, r) :: rest =>
    r ++ (rest.filter fun p => !p.1).flatMap (·.2) ++ (rest.filter fun p => p.1).flatMap (·.2)

mutual
/-- squash one node; `jump k` = the expanded children of note `k` one level down, if `k` is to be expanded -/
def sqTree (jump : String → Option (List Tree)) : Tree → Tree
  | .mk id n cs => .mk id n (assemble (sqKids jump cs))
def sqKids (jump : String → Option (List Tree)) : List Tree → List (Bool × List Tree)
  | [] => []
  | c :: cs => (c.isReference, sqChild jump c) :: sqKids jump cs
/-- a reference to an expandable note is replaced by that note's expanded children, any other
reference is kept as it is (`squash_from_pointer(child, 0)`), any other node is squashed in place -/
def sqChild (jump : String → Option (List Tree)) : Tree → List Tree
  | .mk id n cs =>
    match n with
    | .ref key _ _ =>
      match jump key with
      | some kids => kids
      | none => [.mk id n (assemble (sqKids (fun _ => none) cs))]
    | _ => [.mk id n (assemble (sqKids jump cs))]
end

/-- what a reference expands to when `d` levels of expansion remain -/
def jumpAt (lib : String → Option Tree) : Nat → String → Option (List Tree)
  | 0 => fun _ => none
  | d + 1 => fun key => (lib key).map fun t => (sqTree (jumpAt lib d) t).children

/-- `GraphContext::squash(key, depth)` on the collected tree of `key` -/
def squash (lib : String → Option Tree) (d : Nat) (t : Tree) : Tree := sqTree (jumpAt lib d) t

mutual
/-- reference targets occurring in a tree, in pre-order -/
def refs : Tree → List String
  | .mk _ n cs => (match n with | .ref k _ _ => [k] | _ => []) ++ refsL cs
def refsL : List Tree → List String
  | [] => []
  | t :: ts => refs t ++ refsL ts
end

mutual
/-- ids of the non-reference nodes, in pre-order -/
def nonRefIds : Tree → List (Option Nat)
  | .mk id n cs => (if n.isRef then [] else [id]) ++ nonRefIdsL cs
def nonRefIdsL : List Tree → List (Option Nat)
  | [] => []
  | t :: ts => nonRefIds t ++ nonRefIdsL ts
end

end Squash
end Iwe
