/-
Model of the inlay hints of `iwes/src/router/server.rs` (`handle_inlay_hints`, `container_hint`,
`refs_counter_hints`, `block_reference_hints`, `number_substr`, `hint_at`) over the graph model:
what a note shows about who links to it (C05).  A hint is its label and its line; the column is the
constant 120 of `hint_at`.
-/
import IweModel.Model.Graph

namespace Iwe
namespace Hints

/-- `number_substr`: nothing for 0 and 1, a superscript digit for 2‥9, `+` from 10 on -/
def numberSubstr : Nat → String
  | 0 => ""
  | 1 => ""
  | 2 => "²"
  | 3 => "³"
  | 4 => "⁴"
  | 5 => "⁵"
  | 6 => "⁶"
  | 7 => "⁷"
  | 8 => "⁸"
  | 9 => "⁹"
  | _ => "+"

abbrev Hint := String × Nat

/-- `Graph::get_block_references_in`: the live reference nodes of a note, in document order;
`expect("to have key")` for an unknown note -/
def blockReferencesIn (g : Graph) (key : String) : Except Site (List Nat) :=
  match assocGet g.keys key with
  | none => .error .noKey
  | some root =>
    .ok ((Arena.allSubNodes g.arena (g.arena.length + 1) root).filter fun id =>
      match (g.node id).payload? with
      | some (.ref _ _ _) => true
      | _ => false)

def refKey? (g : Graph) (id : Nat) : Option String :=
  match (g.node id).payload? with
  | some (.ref k _ _) => some k
  | _ => none

/-- adjacent duplicates removed (`Itertools::dedup`) -/
def dedupAdj : List String → List String
  | [] => []
  | [x] => [x]
  | x :: y :: rest => if x == y then dedupAdj (y :: rest) else x :: dedupAdj (y :: rest)

/-- `GraphContext::get_container_document_ref_text`: the title of the note holding the node (empty when it
has none); `to_document().unwrap()` on a node without a note panics -/
def containerText (g : Graph) (id : Nat) : Except Site String :=
  match g.nodeKey id with
  | none => .error .noNode
  | some k => .ok ((g.title k).getD "")

def mapExcept {α β} (f : α → Except Site β) : List α → Except Site (List β)
  | [] => .ok []
  | x :: xs =>
    match f x with
    | .error e => .error e
    | .ok y =>
      match mapExcept f xs with
      | .error e => .error e
      | .ok ys => .ok (y :: ys)

/-- `container_hint`: `↖title` on line 0 for every note that includes this one, sorted, without repetition -/
def containerHints (g : Graph) (key : String) : Except Site (List Hint) :=
  match mapExcept (containerText g) (g.blockReferencesTo key) with
  | .error e => .error e
  | .ok texts => .ok ((dedupAdj (Graph.sortBy (fun a b => a < b) texts)).map fun t => ("↖" ++ t, 0))

/-- `refs_counter_hints`: `‹n›` on line 0 when n > 0 blocks link to the note inline -/
def refsCounterHints (g : Graph) (key : String) : List Hint :=
  let n := (g.inlineReferencesTo key).length
  if n > 0 then [("‹" ++ toString n ++ "›", 0)] else []

/-- `block_reference_hints`: on the line of every block reference of the note that has a line range, `⎘` and
how often the referenced note is included anywhere -/
def blockReferenceHints (g : Graph) (key : String) : Except Site (List Hint) :=
  match blockReferencesIn g key with
  | .error e => .error e
  | .ok ids =>
    .ok (ids.filterMap fun id =>
      (g.nodeLineRange id).map fun r =>
        let count := match refKey? g id with
          | some k => (g.blockReferencesTo k).length
          | none => 0
        ("⎘" ++ numberSubstr count, r.start))

/-- `handle_inlay_hints` (the requested range is not looked at) -/
def inlayHints (g : Graph) (key : String) : Except Site (List Hint) :=
  match containerHints g key with
  | .error e => .error e
  | .ok cs =>
    match blockReferenceHints g key with
    | .error e => .error e
    | .ok bs => .ok (cs ++ refsCounterHints g key ++ bs)

end Hints
end Iwe

namespace Iwe
namespace Completion

/-- one link completion item (`Key::to_completion`): label, sort text, insert text, filter text -/
structure Item where
  label : String
  sortText : String
  insertText : String
  filterText : String
  deriving Repr, DecidableEq, Inhabited

/-- `str::to_lowercase` on the characters the model is compared on is `Char.toLower` for ASCII; other
characters are left to the correspondence (the harness compares the other three fields exactly and this one on
ASCII titles only) -/
def lower (s : String) : String := String.ofList (s.toList.map Char.toLower)

/-- `Key::to_completion`: the note's title as text, the link from the asking note's directory as insert text -/
def item (g : Graph) (dir : String) (key : String) : Item :=
  let title := (g.title key).getD ""
  { label := "🔗 " ++ title
    sortText := title
    insertText := "[" ++ title ++ "](" ++ keyToRel key dir ++ ")"
    filterText := lower (String.ofList (title.toList.filter (· != ' '))) }

/-- `handle_link_completion`: one item per note of the library (the order among equal labels is the hash map's) -/
def linkCompletions (g : Graph) (askingKey : String) : List Item :=
  (g.keys.map (·.1)).map (item g (keyParent askingKey))

end Completion
end Iwe
