-- Root of the `IweModel` library: the executable model (Model/), helper lemmas (Lemmas/)
-- and the property theorems (Props/), one file per property of /verif/properties.jsonl.
import IweModel.Props.C15
import IweModel.Props.C20
