-- Root of the `IweModel` library: the executable model (Model/), abstract specs (Spec/), helper
-- lemmas (Lemmas/) and the property theorems (Props/), one file per property of /verif/properties.jsonl.
import IweModel.Props.C01
import IweModel.Props.C02
import IweModel.Props.C03
import IweModel.Props.C04
import IweModel.Props.C05
import IweModel.Props.C06
import IweModel.Props.C07
import IweModel.Props.C08
import IweModel.Props.C09
import IweModel.Props.C10
import IweModel.Props.C11
import IweModel.Props.C12
import IweModel.Props.C13
import IweModel.Props.C14
import IweModel.Props.C15
import IweModel.Props.C16
import IweModel.Props.C17
import IweModel.Props.C18
import IweModel.Props.C19
import IweModel.Props.C20
