import Driver.Sexp
import IweModel.Model.Position

namespace Iwe.PosOps
open Iwe Position

def n (k : Nat) : Sexp := .atom (toString k)

def nat? : Sexp → Except String Nat
  | .atom s => match s.toNat? with | some v => .ok v | none => .error "nat"
  | _ => .error "nat"

/-- `(pos.ranges #content (r start stop)*)` → `(ranges (r sl sc el ec ls le)*)` -/
def rangesOp (content : String) (rs : List Sexp) : Except String Sexp := do
  let bytes := content.toUTF8.toList.map (·.toNat)
  let out ← rs.mapM fun r => match r with
    | .list [.atom "r", s, e] => do
      let (s, e) := (← nat? s, ← nat? e)
      let ir := toInlineRange bytes s e
      let lr := toLineRange bytes s e
      return Sexp.list [.atom "r", n ir.1.line, n ir.1.character, n ir.2.line, n ir.2.character, n lr.1, n lr.2]
    | _ => .error "bad range"
  return .list (.atom "ranges" :: out)

end Iwe.PosOps
