import Driver.Codec
import IweModel.Model.Wf
import IweModel.Model.Squash
import IweModel.Model.Paths
import IweModel.Model.Actions
import IweModel.Model.Hints
import IweModel.Model.Symbols
import IweModel.Model.Cli

namespace Iwe.GraphOps
open Iwe Codec

def sortKeys (ks : List String) : List String := Graph.sortBy (fun a b => a < b) ks

def sortNat (ks : List Nat) : List Nat := Graph.sortBy (fun a b => a < b) ks

/-- canonical observation of a graph state (what the Rust harness prints for the real `Graph`) -/
def stateS (want : List String) (g : Graph) (nlines : List (String × Nat)) : Sexp :=
  let on (name : String) (x : Unit → Sexp) : Sexp := if want.isEmpty || want.contains name then x () else .list [.atom name, .atom "skipped"]
  let keys := sortKeys (g.keys.map (·.1))
  let arena := on "arena" fun _ => Sexp.list (.atom "arena" :: g.arena.map gnodeS)
  let keysS := on "keys" fun _ => Sexp.list (.atom "keys" :: keys.map fun k => .list [.str k, optNatS (assocGet g.keys k)])
  let titles := on "titles" fun _ => Sexp.list (.atom "titles" :: keys.map fun k => .list [.str k, optStrS (g.title k)])
  let md := on "md" fun _ => Sexp.list (.atom "md" :: keys.map fun k => .list [.str k, exceptS Sexp.str (g.toMarkdown k)])
  let brefs := on "brefs" fun _ => Sexp.list (.atom "brefs" :: keys.map fun k => .list (.str k :: (sortNat (g.blockReferencesTo k)).map natS))
  let irefs := on "irefs" fun _ => Sexp.list (.atom "irefs" :: keys.map fun k => .list (.str k :: (sortNat (g.inlineReferencesTo k)).map natS))
  let ranges := on "ranges" fun _ => Sexp.list (.atom "ranges" :: (List.range g.arena.length).filterMap fun id =>
    (g.nodeLineRange id).map fun r => .list [natS id, natS r.start, natS r.stop])
  let atS := on "at" fun _ => Sexp.list (.atom "at" :: keys.map fun k =>
    .list (.str k :: (List.range ((assocGet nlines k).getD 0)).map fun line =>
      match g.nodeIdAt k line with
      | .ok r => optNatS r
      | .error e => .list [.atom "error", siteS e]))
  let paths := on "paths" fun _ => Sexp.list (.atom "paths" :: (Paths.graphToPaths g).map fun p => .list (p.map natS))
  let spaths := on "spaths" fun _ => Sexp.list (.atom "spaths" :: (Paths.searchPaths g).map fun sp =>
    .list [.str sp.text, natS sp.rank, .str sp.key, .atom (if sp.root then "true" else "false"), natS sp.line, .list (sp.path.map natS)])
  let metas := on "meta" fun _ => Sexp.list (.atom "meta" :: keys.map fun k => .list [.str k, optStrS (assocGet g.metadata k)])
  -- computed on request only (older requests without a parts list do not get it)
  let hints := if want.contains "hints" then Sexp.list (.atom "hints" :: keys.map fun k =>
      .list [.str k, exceptS (fun hs => Sexp.list (.atom "ok" :: hs.map fun (h : Hints.Hint) => .list [.str h.1, natS h.2])) (Hints.inlayHints g k)])
    else .list [.atom "hints", .atom "skipped"]
  let completions := if want.contains "completions" then Sexp.list (.atom "completions" :: keys.map fun asker =>
      .list (.str asker :: (sortKeys ((Completion.linkCompletions g asker).map fun it =>
        it.label ++ "\n" ++ it.sortText ++ "\n" ++ it.insertText ++ "\n" ++ it.filterText)).map Sexp.str))
    else .list [.atom "completions", .atom "skipped"]
  let symS (s : Symbols.Symbol) : Sexp := .list [.str s.name, .atom (if s.namespaceKind then "ns" else "obj"), .str s.key, natS s.line]
  -- document symbols of every note, and the workspace symbols of the empty query
  let symbols := if want.contains "symbols" then
      let sps := Paths.searchPaths g
      let ps := Paths.graphToPaths g
      Sexp.list (.atom "symbols"
        :: .list (.atom "workspace" :: (Symbols.workspaceSymbols g (Paths.globalSearch sps (sps.map fun _ => 0) true)).map symS)
        :: keys.map fun k => .list (.str k :: (Symbols.documentSymbolsOf g ps k).map symS))
    else .list [.atom "symbols", .atom "skipped"]
  -- what `iwe contents` and `iwe paths --depth d` (d = 0‥6) print
  let cli := if want.contains "cli" then
      Sexp.list (.atom "cli" :: .list (.atom "contents" :: (Cli.contentsOutput g).map Sexp.str)
        :: (List.range 7).map fun d => .list (.atom "paths" :: natS d :: (Cli.pathsOutput g d).map Sexp.str))
    else .list [.atom "cli", .atom "skipped"]
  .list [.atom "state", arena, keysS, titles, md, brefs, irefs, ranges, atS, metas, paths, spaths, hints, completions, symbols, cli]

def entry? : Sexp → Except String (String × Nat × Document)
  | .list [.str k, n, d] => do return (k, ← nat? n, ← document? d)
  | _ => .error "bad entry"

/-- `(graph.history #ext (import entry*) (steps entry*))` -/
def history (want : List String) (ext : String) (imp steps : List Sexp) : Except String Sexp := do
  let imp ← imp.mapM entry?
  let steps ← steps.mapM entry?
  let mut nlines : List (String × Nat) := imp.map fun (k, n, _) => (keyFromFileName k, n)
  match Graph.importDocs ext (imp.map fun (k, _, d) => (k, d)) with
  | .error e => return .list [.atom "states", .list [.atom "error", siteS e]]
  | .ok g0 =>
    let mut g := g0
    let mut out : Array Sexp := #[stateS want g nlines]
    for (k, n, d) in steps do
      match g.updateKey k d with
      | .error e =>
        out := out.push (.list [.atom "error", siteS e])
        break
      | .ok g' =>
        g := g'
        nlines := assocSet nlines k n
        out := out.push (stateS want g nlines)
    return .list (.atom "states" :: out.toList)

end Iwe.GraphOps

namespace Iwe.GraphOps
open Iwe Codec

def keyEntry? : Sexp → Except String (String × Nat)
  | .list [.str k, id] => do return (k, ← nat? id)
  | _ => .error "bad key entry"

/-- `(arena.wf (arena gnode*) (keys (#k id)*))`: the Lean `wfCheck` applied to a dumped arena -/
def arenaWf (nodes keys : List Sexp) : Except String Sexp := do
  let a ← nodes.mapM gnode?
  let ks ← keys.mapM keyEntry?
  if Wf.wfCheck a ks then return .atom "ok"
  else return .list (.atom "bad" :: (Wf.wfReport a ks).map Sexp.str)

/-- `(arena.nav (arena gnode*))`: parent / owning note / in-list for every live id -/
def arenaNav (nodes : List Sexp) : Except String Sexp := do
  let a ← nodes.mapM gnode?
  let fuel := a.length + 1
  let rows := (List.range a.length).filterMap fun id =>
    if (Arena.get a id).isEmpty then none else
    some (Sexp.list [natS id, optNatS (Arena.toParent a fuel id),
      optStrS ((Arena.toDocument a fuel id).bind fun d => (Arena.get a d).key?),
      .atom (if Arena.isInList a fuel id then "true" else "false")])
  return .list (.atom "nav" :: rows)

end Iwe.GraphOps

namespace Iwe.GraphOps
open Iwe Codec

/-- run import + steps, return the final graph -/
def finalGraph (ext : String) (imp steps : List Sexp) : Except String (Except Site Graph) := do
  let imp ← imp.mapM entry?
  let steps ← steps.mapM entry?
  match Graph.importDocs ext (imp.map fun (k, _, d) => (k, d)) with
  | .error e => return .error e
  | .ok g0 =>
    let mut g := g0
    for (k, _, d) in steps do
      match g.updateKey k d with
      | .error e => return .error e
      | .ok g' => g := g'
    return .ok g

def libOf (g : Graph) : String → Option Tree := fun k =>
  match g.collect k with
  | .ok t => some t
  | .error _ => none

/-- `(graph.squash #ext (import …) (steps …) #key depth)` → `(squash <tree> <markdown>)` -/
def squashOp (ext : String) (imp steps : List Sexp) (key : String) (depth : Nat) : Except String Sexp := do
  match ← finalGraph ext imp steps with
  | .error e => return .list [.atom "error", siteS e]
  | .ok g =>
    match g.collect key with
    | .error e => return .list [.atom "error", siteS e]
    | .ok t =>
      let sq := Squash.squash (libOf g) depth t
      return .list [.atom "squash", treeS sq, exceptS Sexp.str (Render.treeMarkdown (keyParent key) "" sq)]

/-- `(search.sort empty (e rank textlen score)*)` → the order (indices) `global_search` returns -/
def searchSort (empty : Bool) (entries : List Sexp) : Except String Sexp := do
  let es ← entries.mapM fun e => match e with
    | .list [.atom "e", r, l, s] => do return (← nat? r, ← nat? l, ← nat? s)
    | _ => .error "bad entry"
  let paths : List Paths.SearchPath := es.mapIdx fun i (r, l, _) =>
    { text := String.ofList (List.replicate l 'a'), rank := r, key := "", root := false, line := i, path := [] }
  let out := Paths.globalSearch paths (es.map fun (_, _, s) => s) empty
  return .list (.atom "order" :: out.map fun sp => natS sp.line)

end Iwe.GraphOps

namespace Iwe.GraphOps
open Iwe Codec Actions

def changeS : Change → Sexp
  | .create k => .list [.atom "create", .str k]
  | .update k md => .list [.atom "update", .str k, exceptS Sexp.str md]
  | .remove k => .list [.atom "remove", .str k]

def changesS : Except Site (Option (List Change)) → Sexp
  | .error e => .list [.atom "error", siteS e]
  | .ok none => .atom "none"
  | .ok (some cs) => .list (.atom "changes" :: cs.map changeS)

/-- `(graph.actions #ext (import …) (steps …) #key line)`: the actions offered at the block covering
`line` of note `key`, and what each of them does -/
def actionsOp (ext : String) (imp steps : List Sexp) (key : String) (line : Nat) : Except String Sexp := do
  match ← finalGraph ext imp steps with
  | .error e => return .list [.atom "error", siteS e]
  | .ok g =>
    match g.nodeIdAt key line with
    | .error e => return .list [.atom "error", siteS e]
    | .ok none => return .list [.atom "actions"]
    | .ok (some id) =>
      match offered g id with
      | .error e => return .list [.atom "error", siteS e]
      | .ok kinds =>
        return .list (.atom "actions" :: natS id :: kinds.map fun k => .list [.atom k, changesS (changes g k id)])

/-- `(graph.rename #ext (import …) (steps …) #fromKey <url> #newName)` -/
def renameOp (ext : String) (imp steps : List Sexp) (fromKey : String) (url : Option String) (newName : String) :
    Except String Sexp := do
  match ← finalGraph ext imp steps with
  | .error e => return .list [.atom "error", siteS e]
  | .ok g => return changesS (rename g fromKey url newName)

end Iwe.GraphOps
