import Driver.Sexp
import Driver.Codec
import IweModel.Spec.Events
import IweModel.Spec.Flat

/-!
`(reader.read #content (events ev*))` → `(reader <grammar> <result>)`
  grammar = `complete` | `prefix` | `no`          (Spec/Events.lean on the same events)
  result  = `(ok (doc md (blocks …)))` | `(error site)`
The events are the pulldown-cmark events of `#content`, taken by the harness from its own parser pass.
-/
namespace Iwe.ReaderOps
open Iwe Reader Codec

def kind? : Sexp → Except String InlineKind
  | .list [.atom "emph"] => .ok .emph
  | .list [.atom "strong"] => .ok .strong
  | .list [.atom "strike"] => .ok .strike
  | .list [.atom "link", .str u, .str t, lt] => do return .link u t (← linkType? lt)
  | .list [.atom "image", .str u, .str t] => .ok (.image u t)
  | other => .error s!"bad inline kind {other.toStr.take 40}"

def ev? : Sexp → Except String Ev
  | .list [.atom "startPara", s, e] => do return .startPara (← nat? s) (← nat? e)
  | .list [.atom "endPara"] => .ok .endPara
  | .list [.atom "startHeading", s, e, l] => do return .startHeading (← nat? s) (← nat? e) (← nat? l)
  | .list [.atom "endHeading"] => .ok .endHeading
  | .list [.atom "startQuote", s, e] => do return .startQuote (← nat? s) (← nat? e)
  | .list [.atom "endQuote"] => .ok .endQuote
  | .list [.atom "startCode", s, e, lang] => do return .startCode (← nat? s) (← nat? e) (← optStr? lang)
  | .list [.atom "endCode"] => .ok .endCode
  | .list [.atom "startHtml"] => .ok .startHtml
  | .list [.atom "endHtml"] => .ok .endHtml
  | .list [.atom "startList", .atom "true"] => .ok (.startList true)
  | .list [.atom "startList", .atom "false"] => .ok (.startList false)
  | .list [.atom "endList"] => .ok .endList
  | .list [.atom "startItem"] => .ok .startItem
  | .list [.atom "endItem"] => .ok .endItem
  | .list [.atom "startTable", s, e, .list (.atom "align" :: al)] => do
    return .startTable (← nat? s) (← nat? e) (← al.mapM align?)
  | .list [.atom "endTable"] => .ok .endTable
  | .list [.atom "startRow"] => .ok .startRow
  | .list [.atom "startCell"] => .ok .startCell
  | .list [.atom "startInline", k, s, e] => do return .startInline (← kind? k) (← nat? s) (← nat? e)
  | .list [.atom "endInline"] => .ok .endInline
  | .list [.atom "startMeta"] => .ok .startMeta
  | .list [.atom "endMeta"] => .ok .endMeta
  | .list [.atom "text", s, e, .str t] => do return .text (← nat? s) (← nat? e) t
  | .list [.atom "code", s, e, .str t] => do return .code (← nat? s) (← nat? e) t
  | .list [.atom "math", s, e, .str t] => do return .math (← nat? s) (← nat? e) t
  | .list [.atom "inlineHtml", s, e, .str t] => do return .inlineHtml (← nat? s) (← nat? e) t
  | .list [.atom "rule", s, e] => do return .rule (← nat? s) (← nat? e)
  | .list [.atom "ignored"] => .ok .ignored
  | other => .error s!"bad event {other.toStr.take 60}"

mutual
partial def dblockS : DBlock → Sexp
  | .para lr xs => .list (.atom "para" :: natS lr.start :: natS lr.stop :: xs.map inlineS)
  | .header lr l xs => .list (.atom "header" :: natS lr.start :: natS lr.stop :: natS l :: xs.map inlineS)
  | .code lr lang text => .list [.atom "code", natS lr.start, natS lr.stop, optStrS lang, .str text]
  | .quote lr bs => .list (.atom "quote" :: natS lr.start :: natS lr.stop :: bs.map dblockS)
  | .blist items => .list (.atom "blist" :: items.map itemS)
  | .olist items => .list (.atom "olist" :: items.map itemS)
  | .rule lr => .list [.atom "rule", natS lr.start, natS lr.stop]
  | .table lr h al rows =>
    .list [.atom "table", natS lr.start, natS lr.stop, .list (.atom "head" :: h.map ilS),
      .list (.atom "align" :: al.map alignS),
      .list (.atom "rows" :: rows.map fun r => .list (.atom "row" :: r.map ilS))]
partial def itemS (bs : List DBlock) : Sexp := .list (.atom "item" :: bs.map dblockS)
end

def readOp (content : String) (evs : List Sexp) : Except String Sexp := do
  let bytes := content.toUTF8.toList.map (·.toNat)
  let evs ← evs.mapM ev?
  let grammar :=
    if Events.wellFormed evs then "complete" else if Events.wellFormedPrefix evs then "prefix" else "no"
  let result : Sexp :=
    match Reader.read bytes evs with
    | .ok (blocks, md) => .list [.atom "ok", .list [.atom "doc", optStrS md, .list (.atom "blocks" :: blocks.map dblockS)]]
    | .error site => .list [.atom "error", siteS site]
  -- the two sides of `C01.reader_content`, evaluated by the definitions the theorem is about
  let flatBlocks : Sexp :=
    match Reader.read bytes evs with
    | .ok (blocks, _) => .list [.atom "some", .str (Flat.blocks blocks)]
    | .error _ => .atom "none"
  let flat : Sexp := .list [.atom "flat", .atom (if Flat.htmlTextFree [] evs then "true" else "false"),
    .str (Flat.events false evs), flatBlocks, .list (.atom "levels" :: (Outline.levelsEv [] evs).map natS)]
  return .list [.atom "reader", .atom grammar, result, flat]

end Iwe.ReaderOps
