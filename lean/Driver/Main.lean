import Driver.Sexp
import IweModel.Model.Path
import Driver.GraphOps
import Driver.RouterOps
import Driver.FsOps
import Driver.PosOps
import Driver.ReaderOps
import Driver.UriOps

open Iwe

def chars (s : String) : List Char := s.toList
def ofChars (cs : List Char) : String := String.ofList cs

def dispatch : Sexp → Except String Sexp
  | .list [.atom "ping"] => .ok (.atom "pong")
  | .list [.atom "key.fromRel", .str url, .str rel] =>
    .ok (.str (ofChars (Path.fromRelLinkUrl (chars url) (chars rel))))
  | .list [.atom "key.fromRelJoin", .str url, .str rel] =>
    .ok (.str (ofChars (Path.fromRelLinkUrlJoin (chars url) (chars rel))))
  | .list [.atom "key.toRel", .str key, .str rel] =>
    .ok (.str (ofChars (Path.toRelLinkUrl (chars key) (chars rel))))
  | .list [.atom "key.parent", .str key] => .ok (.str (ofChars (Path.parent (chars key))))
  | .list [.atom "key.fromFileName", .str n] => .ok (.str (ofChars (Path.fromFileName (chars n))))
  | .list [.atom "key.toPath", .str n] => .ok (.str (ofChars (Path.toPath (chars n))))
  | .list [.atom "isRefUrl", .str u] => .ok (.atom (if Path.isRefUrl (chars u) then "true" else "false"))
  | .list [.atom "graph.history", .str ext, .list (.atom "import" :: imp), .list (.atom "steps" :: steps)] =>
    GraphOps.history [] ext imp steps
  | .list [.atom "graph.history", .str ext, .list (.atom "import" :: imp), .list (.atom "steps" :: steps), .list (.atom "parts" :: ps)] =>
    GraphOps.history (ps.filterMap fun p => match p with | .atom a => some a | _ => none) ext imp steps
  | .list [.atom "arena.wf", .list (.atom "arena" :: nodes), .list (.atom "keys" :: keys)] =>
    GraphOps.arenaWf nodes keys
  | .list [.atom "arena.nav", .list (.atom "arena" :: nodes)] => GraphOps.arenaNav nodes
  | .list [.atom "graph.squash", .str ext, .list (.atom "import" :: imp), .list (.atom "steps" :: steps), .str key, .atom d] =>
    GraphOps.squashOp ext imp steps key (d.toNat?.getD 0)
  | .list (.atom "search.sort" :: .atom e :: entries) => GraphOps.searchSort (e == "true") entries
  | .list (.atom "render.blocks" :: .str ext :: bs) => do
    let gs ← bs.mapM Codec.gblock?
    return Codec.exceptS Sexp.str (Render.blocksSparse ext gs)
  | .list [.atom "graph.actions", .str ext, .list (.atom "import" :: imp), .list (.atom "steps" :: steps), .str key, .atom line] =>
    GraphOps.actionsOp ext imp steps key (line.toNat?.getD 0)
  | .list [.atom "graph.rename", .str ext, .list (.atom "import" :: imp), .list (.atom "steps" :: steps), .str fromKey, url, .str newName] => do
    GraphOps.renameOp ext imp steps fromKey (← Codec.optStr? url) newName
  | .list (.atom "router.run" :: .atom w :: .atom c :: .atom notes :: acts) =>
    RouterOps.runOp (w == "true") (c == "true") (notes.toNat?.getD 1) acts
  | .list [.atom "fs.writeFile", .atom a, .str base, .str key, .atom n] =>
    .ok (FsOps.writeFileOp (a == "true") base key (n.toNat?.getD 1))
  | .list [.atom "fs.writeFileFailing", .str base, .str key, .atom n, .atom k] =>
    .ok (FsOps.writeFileFailingOp base key (n.toNat?.getD 1) (k.toNat?.getD 0))
  | .list (.atom "pos.ranges" :: .str content :: rs) => PosOps.rangesOp content rs
  | .list [.atom "reader.read", .str content, .list (.atom "events" :: evs)] => ReaderOps.readOp content evs
  | .list [.atom "uri.keyToUrl", .str b, .str k] => .ok (UriOps.keyToUrlOp b k)
  | .list [.atom "uri.urlToKey", .str b, .str u] => .ok (UriOps.urlToKeyOp b u)
  | .list [.atom "uri.definition", .str b, .str k, .str u] => .ok (UriOps.definitionOp b k u)
  | .list [.atom "uri.safeKey", .str k] => .ok (.atom (if UriOps.safeKey k then "true" else "false"))
  | other => .error s!"unknown request {other.toStr.take 80}"

partial def loop (h : IO.FS.Stream) (out : IO.FS.Stream) : IO Unit := do
  let line ← h.getLine
  if line.isEmpty then return ()
  let reply := match Sexp.parse line with
    | .error e => "(error #" ++ Sexp.hexOfString e ++ ")"
    | .ok req => match dispatch req with
      | .ok r => r.toStr
      | .error e => "(error #" ++ Sexp.hexOfString e ++ ")"
  out.putStrLn reply
  out.flush
  loop h out

def main : IO Unit := do
  loop (← IO.getStdin) (← IO.getStdout)
