/-
(De)serialisation between protocol S-expressions and model values.  Not part of the model.
-/
import Driver.Sexp
import IweModel.Model.Graph

namespace Iwe.Codec
open Iwe Sexp

def nat? : Sexp → Except String Nat
  | .atom s => match s.toNat? with | some n => .ok n | none => .error s!"not a number: {s}"
  | _ => .error "expected number"

def str? : Sexp → Except String String
  | .str s => .ok s
  | _ => .error "expected string"

def linkType? : Sexp → Except String LinkType
  | .atom "regular" => .ok .regular
  | .atom "wiki" => .ok .wiki
  | .atom "wikiPiped" => .ok .wikiPiped
  | _ => .error "bad link type"

def align? : Sexp → Except String Align
  | .atom "none" => .ok .none
  | .atom "left" => .ok .left
  | .atom "center" => .ok .center
  | .atom "right" => .ok .right
  | _ => .error "bad alignment"

def optStr? : Sexp → Except String (Option String)
  | .atom "none" => .ok none
  | .list [.atom "some", .str s] => .ok (some s)
  | _ => .error "bad optional string"

mutual
partial def inline? : Sexp → Except String Inline
  | .list [.atom "str", .str s] => .ok (.str s)
  | .list [.atom "code", .str s] => .ok (.code s)
  | .list [.atom "math", .str s] => .ok (.math s)
  | .list (.atom "emph" :: xs) => do return .emph (← inlines? xs)
  | .list (.atom "strong" :: xs) => do return .strong (← inlines? xs)
  | .list (.atom "strikeout" :: xs) => do return .strikeout (← inlines? xs)
  | .list (.atom "link" :: .str url :: .str title :: t :: xs) => do
    return .link url title (← linkType? t) (← inlines? xs)
  | .list (.atom "image" :: .str url :: .str title :: xs) => do return .image url title (← inlines? xs)
  | other => .error s!"bad inline {other.toStr.take 60}"
partial def inlines? (xs : List Sexp) : Except String Inlines := xs.mapM inline?
end

def il? : Sexp → Except String Inlines
  | .list (.atom "il" :: xs) => inlines? xs
  | other => .error s!"bad inline list {other.toStr.take 60}"

mutual
partial def dblock? : Sexp → Except String DBlock
  | .list (.atom "para" :: s :: e :: xs) => do return .para ⟨← nat? s, ← nat? e⟩ (← inlines? xs)
  | .list (.atom "header" :: s :: e :: l :: xs) => do return .header ⟨← nat? s, ← nat? e⟩ (← nat? l) (← inlines? xs)
  | .list [.atom "code", s, e, lang, .str text] => do return .code ⟨← nat? s, ← nat? e⟩ (← optStr? lang) text
  | .list (.atom "quote" :: s :: e :: bs) => do return .quote ⟨← nat? s, ← nat? e⟩ (← bs.mapM dblock?)
  | .list (.atom "blist" :: its) => do return .blist (← its.mapM item?)
  | .list (.atom "olist" :: its) => do return .olist (← its.mapM item?)
  | .list [.atom "rule", s, e] => do return .rule ⟨← nat? s, ← nat? e⟩
  | .list [.atom "table", s, e, .list (.atom "head" :: h), .list (.atom "align" :: al), .list (.atom "rows" :: rows)] => do
    let rows ← rows.mapM fun r => match r with
      | .list (.atom "row" :: cells) => cells.mapM il?
      | _ => .error "bad row"
    return .table ⟨← nat? s, ← nat? e⟩ (← h.mapM il?) (← al.mapM align?) rows
  | other => .error s!"bad block {other.toStr.take 60}"
partial def item? : Sexp → Except String (List DBlock)
  | .list (.atom "item" :: bs) => bs.mapM dblock?
  | _ => .error "bad item"
end

def document? : Sexp → Except String Document
  | .list [.atom "doc", md, .list (.atom "blocks" :: bs)] => do
    return { blocks := ← bs.mapM dblock?, metadata := ← optStr? md }
  | other => .error s!"bad document {other.toStr.take 60}"

/-! ### printers -/

def natS (n : Nat) : Sexp := .atom (toString n)
def optNatS : Option Nat → Sexp
  | some n => natS n
  | none => .atom "none"
def optStrS : Option String → Sexp
  | some s => .list [.atom "some", .str s]
  | none => .atom "none"
def linkTypeS : LinkType → Sexp
  | .regular => .atom "regular"
  | .wiki => .atom "wiki"
  | .wikiPiped => .atom "wikiPiped"
def alignS : Align → Sexp
  | .none => .atom "none"
  | .left => .atom "left"
  | .center => .atom "center"
  | .right => .atom "right"

mutual
partial def inlineS : Inline → Sexp
  | .str s => .list [.atom "str", .str s]
  | .code s => .list [.atom "code", .str s]
  | .math s => .list [.atom "math", .str s]
  | .emph xs => .list (.atom "emph" :: xs.map inlineS)
  | .strong xs => .list (.atom "strong" :: xs.map inlineS)
  | .strikeout xs => .list (.atom "strikeout" :: xs.map inlineS)
  | .link url title t xs => .list (.atom "link" :: .str url :: .str title :: linkTypeS t :: xs.map inlineS)
  | .image url title xs => .list (.atom "image" :: .str url :: .str title :: xs.map inlineS)
end

def ilS (xs : Inlines) : Sexp := .list (.atom "il" :: xs.map inlineS)

def nodeS : Node → Sexp
  | .document k => .list [.atom "document", .str k]
  | .sect xs => .list [.atom "sect", ilS xs]
  | .quote => .atom "quote"
  | .blist => .atom "blist"
  | .olist => .atom "olist"
  | .leaf xs => .list [.atom "leaf", ilS xs]
  | .raw l c => .list [.atom "raw", optStrS l, .str c]
  | .rule => .atom "rule"
  | .ref k t ty => .list [.atom "ref", .str k, .str t, linkTypeS ty]
  | .table h a rows => .list [.atom "table", .list (.atom "head" :: h.map ilS), .list (.atom "align" :: a.map alignS),
      .list (.atom "rows" :: rows.map fun r => .list (.atom "row" :: r.map ilS))]

def gnodeS : GNode → Sexp
  | .empty => .atom "empty"
  | .document id c k => .list [.atom "doc", natS id, optNatS c, .str k]
  | .node id p n c pl => .list [.atom "n", natS id, natS p, optNatS n, optNatS c, nodeS pl]

partial def treeS : Tree → Sexp
  | .mk id n cs => .list (.atom "t" :: optNatS id :: nodeS n :: cs.map treeS)

def siteS : Site → Sexp
  | .sectionBlock => .atom "sectionBlock"
  | .headerInBlock => .atom "headerInBlock"
  | .noKey => .atom "noKey"
  | .noNode => .atom "noNode"
  | .emptyStack => .atom "emptyStack"
  | .other w => .list [.atom "other", .str w]
  | .unmodelled w => .list [.atom "unmodelled", .str w]

def exceptS {α} (f : α → Sexp) : Except Site α → Sexp
  | .ok a => f a
  | .error e => .list [.atom "error", siteS e]

end Iwe.Codec

namespace Iwe.Codec
open Iwe Sexp

def optNat? : Sexp → Except String (Option Nat)
  | .atom "none" => .ok none
  | x => do return some (← nat? x)

def node? : Sexp → Except String Node
  | .list [.atom "document", .str k] => .ok (.document k)
  | .list [.atom "sect", xs] => do return .sect (← il? xs)
  | .atom "quote" => .ok .quote
  | .atom "blist" => .ok .blist
  | .atom "olist" => .ok .olist
  | .list [.atom "leaf", xs] => do return .leaf (← il? xs)
  | .list [.atom "raw", l, .str c] => do return .raw (← optStr? l) c
  | .atom "rule" => .ok .rule
  | .list [.atom "ref", .str k, .str t, ty] => do return .ref k t (← linkType? ty)
  | .list [.atom "table", .list (.atom "head" :: h), .list (.atom "align" :: al), .list (.atom "rows" :: rows)] => do
    let rows ← rows.mapM fun r => match r with
      | .list (.atom "row" :: cells) => cells.mapM il?
      | _ => .error "bad row"
    return .table (← h.mapM il?) (← al.mapM align?) rows
  | other => .error s!"bad node {other.toStr.take 60}"

def gnode? : Sexp → Except String GNode
  | .atom "empty" => .ok .empty
  | .list [.atom "doc", id, c, .str k] => do return .document (← nat? id) (← optNat? c) k
  | .list [.atom "n", id, p, n, c, pl] => do return .node (← nat? id) (← nat? p) (← optNat? n) (← optNat? c) (← node? pl)
  | other => .error s!"bad gnode {other.toStr.take 60}"

partial def tree? : Sexp → Except String Tree
  | .list (.atom "t" :: id :: n :: cs) => do return .mk (← optNat? id) (← node? n) (← cs.mapM tree?)
  | other => .error s!"bad tree {other.toStr.take 60}"

end Iwe.Codec

namespace Iwe.Codec
open Iwe Sexp

mutual
partial def gblock? : Sexp → Except String GBlock
  | .list [.atom "plain", xs] => do return .plain (← il? xs)
  | .list [.atom "para", xs] => do return .para (← il? xs)
  | .list [.atom "code", l, .str t] => do return .code (← optStr? l) t
  | .list (.atom "quote" :: bs) => do return .quote (← bs.mapM gblock?)
  | .list (.atom "olist" :: its) => do return .olist (← its.mapM gitem?)
  | .list (.atom "blist" :: its) => do return .blist (← its.mapM gitem?)
  | .list [.atom "header", l, xs] => do return .header (← nat? l) (← il? xs)
  | .atom "rule" => .ok .rule
  | .list [.atom "table", .list (.atom "head" :: h), .list (.atom "align" :: al), .list (.atom "rows" :: rows)] => do
    let rows ← rows.mapM fun r => match r with
      | .list (.atom "row" :: cells) => cells.mapM il?
      | _ => .error "bad row"
    return .table (← h.mapM il?) (← al.mapM align?) rows
  | other => .error s!"bad gblock {other.toStr.take 60}"
partial def gitem? : Sexp → Except String (List GBlock)
  | .list (.atom "item" :: bs) => bs.mapM gblock?
  | _ => .error "bad item"
end

end Iwe.Codec
