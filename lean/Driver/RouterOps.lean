import Driver.Sexp
import IweModel.Model.Router

namespace Iwe.RouterOps
open Iwe Router

def nat? : Sexp → Except String Nat
  | .atom s => match s.toNat? with | some n => .ok n | none => .error s!"not a number: {s}"
  | _ => .error "expected number"

def act? : Sexp → Except String Act
  | .list [.atom "send", .list [.atom "req", id, note, .atom oc]] => do
    let o ← match oc with
      | "ok" => pure Outcome.ok
      | "err" => pure Outcome.err
      | "panic" => pure Outcome.panic
      | _ => .error "bad outcome"
    return .send (.req (← nat? id) (← nat? note) o)
  | .list [.atom "send", .list [.atom "notif", note, ver]] => do return .send (.notif (← nat? note) (← nat? ver))
  | .list [.atom "adv", id] => do return .advance (← nat? id)
  | _ => .error "bad act"

def n (k : Nat) : Sexp := .atom (toString k)

/-- `(router.run wait catch notes act*)` → final state -/
def runOp (wait catch_ : Bool) (notes : Nat) (acts : List Sexp) : Except String Sexp := do
  let acts ← acts.mapM act?
  let st := run ⟨wait, catch_⟩ acts
  return .list [.atom "st",
    .list (.atom "texts" :: (List.range notes).map fun k => n (version st.texts k)),
    .list (.atom "outbox" :: st.outbox.map fun (id, r) => .list [n id, match r with | .result v => n v | .error => .atom "error"]),
    .list (.atom "dropped" :: st.dropped.map fun (a, b) => .list [n a, n b]),
    .list (.atom "dead" :: st.dead.map n),
    .atom (if quiescent st then "idle" else "busy")]

end Iwe.RouterOps
