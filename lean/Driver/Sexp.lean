/-
S-expressions for the line protocol between the Rust harness and the Lean model driver.
  atom   : bare token of [A-Za-z0-9_.:+-]
  string : `#` followed by the hex of the UTF-8 bytes (`#` alone = empty string)
  list   : `(` items separated by blanks `)`
This file is *not* part of the model: it is (de)serialisation, trusted as part of the
correspondence check (see DESIGN.md §5).
-/
namespace Iwe

inductive Sexp where
  | atom (s : String)
  | str (s : String)
  | list (xs : List Sexp)
  deriving Inhabited, Repr

namespace Sexp

def hexDigit (n : Nat) : Char :=
  if n < 10 then Char.ofNat (48 + n) else Char.ofNat (87 + n)

def hexOfString (s : String) : String := Id.run do
  let bs := s.toUTF8
  let mut out : String := ""
  for b in bs do
    out := out.push (hexDigit (b.toNat / 16))
    out := out.push (hexDigit (b.toNat % 16))
  return out

partial def toStr : Sexp → String
  | atom s => s
  | str s => "#" ++ hexOfString s
  | list xs => "(" ++ " ".intercalate (xs.map toStr) ++ ")"

def hexVal (b : UInt8) : Option Nat :=
  if 48 ≤ b.toNat ∧ b.toNat ≤ 57 then some (b.toNat - 48)
  else if 97 ≤ b.toNat ∧ b.toNat ≤ 102 then some (b.toNat - 87)
  else none

def isAtomByte (b : UInt8) : Bool :=
  let n := b.toNat
  (48 ≤ n ∧ n ≤ 57) || (65 ≤ n ∧ n ≤ 90) || (97 ≤ n ∧ n ≤ 122) ||
  n = 95 || n = 46 || n = 58 || n = 43 || n = 45

partial def skipWs (bs : ByteArray) (i : Nat) : Nat :=
  if i < bs.size ∧ (bs.get! i = 32 ∨ bs.get! i = 10 ∨ bs.get! i = 13 ∨ bs.get! i = 9) then skipWs bs (i + 1) else i

mutual
partial def parseAt (bs : ByteArray) (i : Nat) : Except String (Sexp × Nat) := do
  let i := skipWs bs i
  if i ≥ bs.size then throw "unexpected end of input"
  let b := bs.get! i
  if b = 40 then
    parseList bs (i + 1) #[]
  else if b = 35 then
    -- hex string
    let rec go (j : Nat) (acc : ByteArray) : Except String (ByteArray × Nat) :=
      if j + 1 < bs.size then
        match hexVal (bs.get! j), hexVal (bs.get! (j + 1)) with
        | some h, some l => go (j + 2) (acc.push (UInt8.ofNat (h * 16 + l)))
        | _, _ => .ok (acc, j)
      else .ok (acc, j)
    let (bytes, j) ← go (i + 1) ByteArray.empty
    match String.fromUTF8? bytes with
    | some s => return (str s, j)
    | none => throw "invalid utf-8 in string"
  else if isAtomByte b then
    let rec goA (j : Nat) : Nat := if j < bs.size ∧ isAtomByte (bs.get! j) then goA (j + 1) else j
    let j := goA i
    return (atom (String.fromUTF8! (bs.extract i j)), j)
  else throw s!"unexpected byte {b} at {i}"

partial def parseList (bs : ByteArray) (i : Nat) (acc : Array Sexp) : Except String (Sexp × Nat) := do
  let i := skipWs bs i
  if i ≥ bs.size then throw "unterminated list"
  if bs.get! i = 41 then return (list acc.toList, i + 1)
  let (x, j) ← parseAt bs i
  parseList bs j (acc.push x)
end

def parse (s : String) : Except String Sexp := do
  let (x, _) ← parseAt s.toUTF8 0
  return x

end Sexp
end Iwe
