import Driver.Sexp
import IweModel.Model.Fs

namespace Iwe.FsOps
open Iwe Fs

def stepS : Step → Sexp
  | .openTrunc p => .list [.atom "openTrunc", .str p]
  | .append p _ => .list [.atom "append", .str p]
  | .rename s d => .list [.atom "rename", .str s, .str d]
  | .unlink p => .list [.atom "unlink", .str p]

/-- `(fs.writeFile atomic #base #key nchunks)` → the step sequence of `write_file` -/
def writeFileOp (atomic : Bool) (base key : String) (n : Nat) : Sexp :=
  .list (.atom "steps" :: (writeFile atomic base key (List.replicate n "x")).map stepS)

/-- `(fs.writeFileFailing #base #key nchunks k)` → the steps of `write_file` whose step `k` returns an error -/
def writeFileFailingOp (base key : String) (n k : Nat) : Sexp :=
  .list (.atom "steps" :: (writeFileFailing base key (List.replicate n "x") k).map stepS)

end Iwe.FsOps
