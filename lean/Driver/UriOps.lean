import Driver.Sexp
import IweModel.Model.Uri

namespace Iwe.UriOps
open Iwe Uri

/-- `(uri.keyToUrl #basePath #key)` and `(uri.urlToKey #basePath #url)` -/
def keyToUrlOp (basePath key : String) : Sexp :=
  .str (String.ofList (keyToUrl (baseOf basePath.toList) key.toList))

def urlToKeyOp (basePath url : String) : Sexp :=
  .str (String.ofList (urlToKey (baseOf basePath.toList) url.toList))

/-- `(uri.definition #basePath #key #url)`: the URI go-to-definition answers for the link `url` met in note `key` -/
def definitionOp (basePath key url : String) : Sexp :=
  .str (String.ofList (definitionTarget basePath.toList key.toList url.toList))

def safeKey (key : String) : Bool :=
  (key.splitOn "/").all fun c => safeComponent c.toList

end Iwe.UriOps
